// expect: E0597 E0515 E0716
use bytes::Bytes;
fn make() -> Bytes {
    let v = vec![1u8; 16];
    Bytes::from_static(&v)
}
fn main() {
    println!("{:?}", make());
}
