// control: the probe set-up itself compiles and links against the crate
use bytes::{Buf, BufMut, Bytes, BytesMut};
fn is_send_sync<T: Send + Sync>() {}
fn main() {
    is_send_sync::<Bytes>();
    is_send_sync::<BytesMut>();
    let mut m = BytesMut::new();
    m.put_u8(1);
    let b: Bytes = m.freeze();
    assert_eq!(b.chunk(), &[1]);
    struct Owner(Vec<u8>);
    impl AsRef<[u8]> for Owner {
        fn as_ref(&self) -> &[u8] {
            &self.0
        }
    }
    let o = Bytes::from_owner(Owner(vec![1, 2]));
    assert_eq!(o.len(), 2);
}
