// expect: E0277
// the owner is dropped on whichever thread drops the last handle: it must be Send
use bytes::Bytes;
struct Local(std::rc::Rc<Vec<u8>>);
impl AsRef<[u8]> for Local {
    fn as_ref(&self) -> &[u8] {
        &self.0
    }
}
fn main() {
    let b = Bytes::from_owner(Local(std::rc::Rc::new(vec![1, 2, 3])));
    std::thread::spawn(move || drop(b)).join().unwrap();
}
