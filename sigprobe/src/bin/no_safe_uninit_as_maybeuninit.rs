// expect: E0133
use bytes::buf::UninitSlice;
fn main() {
    let mut a = [0u8; 4];
    let s = UninitSlice::new(&mut a[..]);
    let raw = s.as_uninit_slice_mut();
    raw[0] = core::mem::MaybeUninit::uninit();
    println!("{:?}", a);
}
