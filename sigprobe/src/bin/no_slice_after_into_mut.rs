// expect: E0505 E0382
// a borrowed view must end before the handle is converted (and possibly mutated in place)
use bytes::{Bytes, BytesMut};
fn main() {
    let b = Bytes::from(vec![1u8, 2, 3]);
    let view: &[u8] = &b;
    let mut m: BytesMut = b.into();
    m[0] = 9;
    println!("{:?} {:?}", view, m);
}
