// expect: E0382
use bytes::Bytes;
fn main() {
    let b = Bytes::from(vec![1u8, 2, 3]);
    let m = b.try_into_mut();
    println!("{:?} {:?}", b.len(), m.is_ok());
}
