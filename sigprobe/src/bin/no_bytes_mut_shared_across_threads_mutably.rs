// expect: E0499 E0502 E0373 E0521 E0597 E0506
// two threads must not get &mut to one BytesMut
use bytes::{BufMut, BytesMut};
fn main() {
    let mut m = BytesMut::with_capacity(8);
    let r1 = &mut m;
    let r2 = &mut m;
    std::thread::scope(|s| {
        s.spawn(|| r1.put_u8(1));
        s.spawn(|| r2.put_u8(2));
    });
}
