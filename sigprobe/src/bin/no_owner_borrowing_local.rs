// expect: E0597 E0515 E0521 E0716
// from_owner must demand 'static: an owner that borrows a local would leave the handle dangling
use bytes::Bytes;
struct Borrowed<'a>(&'a [u8]);
impl AsRef<[u8]> for Borrowed<'_> {
    fn as_ref(&self) -> &[u8] {
        self.0
    }
}
fn make() -> Bytes {
    let v = vec![1u8; 16];
    Bytes::from_owner(Borrowed(&v))
}
fn main() {
    println!("{:?}", make());
}
