// expect: E0499 E0502
use bytes::{BufMut, BytesMut};
fn main() {
    let mut m = BytesMut::with_capacity(4);
    let c = m.chunk_mut();
    m.put_u8(1);
    c.write_byte(0, 2);
    println!("{:?}", m);
}
