// expect: E0597 E0515 E0505
use bytes::Bytes;
fn view() -> &'static [u8] {
    let b = Bytes::from(vec![1u8, 2, 3]);
    &b[..]
}
fn main() {
    println!("{:?}", view());
}
