// expect: E0200 E0199
// BufMut is an unsafe trait: implementing it must need `unsafe impl`
use bytes::buf::UninitSlice;
use bytes::BufMut;
struct Mine;
impl BufMut for Mine {
    fn remaining_mut(&self) -> usize {
        0
    }
    unsafe fn advance_mut(&mut self, _cnt: usize) {}
    fn chunk_mut(&mut self) -> &mut UninitSlice {
        UninitSlice::new(&mut [])
    }
}
fn main() {
    let _ = Mine;
}
