// expect: E0597 E0515 E0505
use bytes::BytesMut;
fn main() {
    let it;
    {
        let m = BytesMut::from(&b"abc"[..]);
        it = m.iter();
    }
    println!("{:?}", it.count());
}
