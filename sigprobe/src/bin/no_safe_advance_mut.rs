// expect: E0133
use bytes::{BufMut, BytesMut};
fn main() {
    let mut m = BytesMut::with_capacity(4);
    m.advance_mut(4);
    let mut v: Vec<u8> = Vec::with_capacity(4);
    v.advance_mut(4);
    println!("{:?} {:?}", m, v);
}
