// expect: E0597 E0515 E0505
use bytes::{Buf, BytesMut};
fn main() {
    let s: &[u8];
    {
        let m = BytesMut::from(&b"abc"[..]);
        s = m.chunk();
    }
    println!("{:?}", s);
}
