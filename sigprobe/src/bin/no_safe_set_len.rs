// expect: E0133
use bytes::BytesMut;
fn main() {
    let mut m = BytesMut::with_capacity(4);
    m.set_len(4);
    println!("{:?}", m);
}
