// expect: E0499 E0502
use bytes::BytesMut;
fn main() {
    let mut m = BytesMut::with_capacity(4);
    let s = m.spare_capacity_mut();
    m.extend_from_slice(b"abcdefgh");
    s[0].write(1);
    println!("{:?}", m);
}
