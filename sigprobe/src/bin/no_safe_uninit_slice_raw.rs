// expect: E0133
use bytes::buf::UninitSlice;
fn main() {
    let mut a = [0u8; 4];
    let s = UninitSlice::from_raw_parts_mut(a.as_mut_ptr(), 64);
    s.write_byte(63, 1);
}
