#!/bin/bash
# seed_matrix.sh <ID>... : for each property ID run its quick check against both seeded mutations of that property.
for id in "$@"; do for m in m1 m2; do
  /verif/tools/try_seed.sh ${MUTOUT:-/tmp/mutout}/$id/$m/patch.diff $id 2>&1 | grep "^RESULT\|PATCH-DOES"
done; done
