#!/bin/bash
# process_seed.sh <PROP> <mN> [<extra check ids>...] : confirm a sub-agent's change (confirm_seed.sh), then run the
# property's own quick check (and any extra checks) against it (try_seed.sh). Appends RESULT lines to $MUTOUT/matrix.log
P=$1; M=$2; shift; shift
MUTOUT=${MUTOUT:-/tmp/mutout}; export MUTOUT
D=$MUTOUT/$P/$M
[ -f $D/patch.diff ] || { echo "no patch for $P/$M"; exit 0; }
[ -f $D/confirm.json ] || /verif/tools/confirm_seed.sh $P $M > $D/confirm.log 2>&1
cat $D/confirm.json
/verif/tools/try_seed.sh $D/patch.diff $P "$@" 2>&1 | grep "^RESULT\|PATCH-DOES" | tee -a $MUTOUT/matrix.log
