#!/usr/bin/env python3
"""seed_table.py : print the markdown table of DESIGN.md §9 from /verif/seeded/*/meta.json"""
import glob, json, os, re
rows = []
for d in sorted(glob.glob("/verif/seeded/*")):
    mj = os.path.join(d, "meta.json")
    if not os.path.exists(mj):
        continue
    m = json.load(open(mj))
    patch = open(os.path.join(d, "patch.diff")).read()
    funcs = []
    for h in re.findall(r"^@@.*@@ (.*)$", patch, re.M):
        h = h.strip()
        if h and h not in funcs:
            funcs.append(h)
    where = ", ".join(m.get("files_changed", []))
    first = ""
    own = m["breaks_property"]
    cr = m.get("checks_run", {})
    if own in cr:
        first = cr[own]
    first = re.sub(r"0x[0-9a-f]{6,}", "0x..", first)
    first = first.replace("VIOLATION (exit 1): ", "").replace("|", "/")
    summ = m.get("summary") or ""
    rows.append((m["id"], own, where, summ, ",".join(m.get("detected_by", [])) or "-", first[:170], m.get("history", "")))
print("| seeded change | breaks | file(s) | what it does | reported by | first report of the property's own check |")
print("|---|---|---|---|---|---|")
for r in rows:
    print("| %s | %s | %s | %s | %s | %s |" % r[:6])
