#!/usr/bin/env python3
"""seed_table.py : print the markdown table of DESIGN.md section 9 from /verif/seeded/*/meta.json"""
import glob, json, re
rows = []
for d in sorted(glob.glob('/verif/seeded/*')):
    m = json.load(open(d + '/meta.json'))
    own = m['breaks_property']
    first = m['checks_run'].get(own, '')
    first = re.sub(r"0x[0-9a-f]{6,}", "0x..", first).replace("VIOLATION (exit 1): ", "").replace("|", "/")
    for cut in (' / history', ' / program', ' / tree', ' / target', ' / buffer', ' / recycle'):
        first = first.split(cut)[0]
    fr = m.get('first_run_of_own_check', '')
    rows.append("| %s | %s | %s | %s | %s |" % (m['id'], m.get('summary', '').replace('|', '/'), "yes" if fr == 'reported' and not m.get('history') else "no (see meta.json)",
                                               "yes" if own in m['detected_by'] else "NO", first[:150]))
print("| seeded change | what it does (all pass the pinned suite) | reported at first run | reported now | what the property's own quick check says |")
print("|---|---|---|---|---|")
print("\n".join(rows))
