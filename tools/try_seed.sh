#!/bin/bash
# try_seed.sh <patch.diff> <ID> [<ID>...] : run the quick checks <ID>... against a scratch worktree of /repo
# HEAD with the patch applied (isolated target dir and output dir; /repo itself is not touched).
PATCH=$1; shift
TAG=$(echo $PATCH | md5sum | cut -c1-8)
WT=/tmp/seedwt_$TAG
rm -rf $WT; git -C /repo worktree add -q --detach $WT HEAD || exit 2
( cd $WT && git apply $PATCH ) || { echo "PATCH-DOES-NOT-APPLY"; git -C /repo worktree remove --force $WT; exit 3; }
export VERIF_REPO=$WT VERIF_TARGETS=${SEED_TARGETS:-/tmp/seedtargets} VERIF_OUT=/tmp/seedout_$TAG
mkdir -p $VERIF_OUT
for id in "$@"; do
  /verif/vcheck $id ${TIER:-quick} > $VERIF_OUT/$id.log 2>&1; rc=$?
  nv=$(grep -c "^VIOLATION property=$id" $VERIF_OUT/$id.log)
  echo "RESULT patch=$PATCH check=$id rc=$rc violations=$nv first=$(grep -A1 "^VIOLATION" $VERIF_OUT/$id.log | sed -n 2p | cut -c1-300)"
done
git -C /repo worktree remove --force $WT
