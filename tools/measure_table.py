#!/usr/bin/env python3
"""measure_table.py : print a markdown table of what the last run of every check covered, from /verif/evidence/*.json"""
import glob, json, os
print("| check | tier | workers | states | transitions / evaluations | distinct non-trivial | exhaustive within bounds | wall |")
print("|---|---|---|---|---|---|---|---|")
for f in sorted(glob.glob(os.path.join(os.path.dirname(os.path.dirname(os.path.abspath(__file__))), "evidence", "C*.json"))):
    d = json.load(open(f))
    c = d.get("coverage", {})
    ws = c.get("workers", [])
    print("| %s | %s | %d | %s | %s / %s | %s | %s | %.0f s |" % (
        d.get("property_id"), d.get("tier"), len(ws), "{:,}".format(c.get("states", 0)), "{:,}".format(c.get("transitions", 0)), "{:,}".format(c.get("evaluations", 0)),
        "{:,}".format(c.get("distinct_nontrivial", 0)), "yes" if d.get("exhaustive", c.get("exhaustive", True)) else "no (caps reported)", d.get("wall_s", 0)))
