#!/usr/bin/env python3
"""collect_seeds.py : copy confirmed seeded changes into /verif/seeded/<id>/ with meta.json.
Inputs: /tmp/mutout (round 1), /tmp/mutout2 (round 2), /tmp/mutout3 (round 3): <prop>/<m>/{patch.diff,demo*.rs,notes.md,confirm.json}
        matrix logs with lines `RESULT patch=<path> check=<ID> rc=<n> violations=<k> first=<msg>`."""
import glob, json, os, re, shutil, sys
OUT = "/verif/seeded"
logs = sys.argv[1:]
det = {}
first_seen = {}
for lg in logs:
    if not os.path.exists(lg):
        continue
    for line in open(lg, errors="replace"):
        m = re.match(r"RESULT patch=(\S+) check=(\S+) rc=(\d+) violations=(\d+) first=(.*)", line)
        if m:
            rec = dict(rc=int(m.group(3)), violations=int(m.group(4)), first=m.group(5).replace("[vcheck]", "").strip()[:400])
            det.setdefault(m.group(1), {})[m.group(2)] = rec
            first_seen.setdefault(m.group(1), {}).setdefault(m.group(2), rec)
rows = []
SUMM = json.load(open("/verif/tools/seed_summaries.json")) if os.path.exists("/verif/tools/seed_summaries.json") else {}
ROUNDS = os.environ.get("ROUNDS", "r1,r2,r3,r4,r5,r6,r7,r8,r9").split(",")  # ROUNDS=r6 collects one round only (the logs of the others are gone)
for rnd, base in (("r1", "/tmp/mutout"), ("r2", "/tmp/mutout2"), ("r3", "/tmp/mutout3"), ("r4", "/tmp/mutout4"), ("r5", "/tmp/mutout5"), ("r6", "/tmp/mutout6"), ("r7", "/tmp/mutout7"), ("r8", "/tmp/mutout8"), ("r9", "/tmp/mutout9")):
    if rnd not in ROUNDS:
        continue
    for d in sorted(glob.glob(base + "/C*/m[12]")):
        prop, m = d.split("/")[-2:]
        cj = os.path.join(d, "confirm.json")
        if not os.path.exists(cj):
            continue
        c = json.load(open(cj))
        ok = all(c.get(k) for k in ("applies", "builds", "suite_passes", "demo_fails_on_mutant", "demo_passes_on_original"))
        if not ok:
            continue
        name = "%s-%s-%s" % (prop, rnd, m)
        dst = os.path.join(OUT, name)
        os.makedirs(dst, exist_ok=True)
        for f in os.listdir(d):
            if f in ("patch.diff", "notes.md") or (f.startswith("demo") and (f.endswith(".rs") or f.endswith(".diff"))):
                shutil.copy(os.path.join(d, f), os.path.join(dst, f))
        notes = open(os.path.join(d, "notes.md"), errors="replace").read() if os.path.exists(os.path.join(d, "notes.md")) else ""
        needs = ""
        mm = re.search(r"(?is)(what (?:exactly )?is needed.*?|needed to manifest.*?|trigger[^\n]*\n.*?)(?:\n#|\n\n\n|$)", notes)
        if mm:
            needs = re.sub(r"\s+", " ", mm.group(1))[:700]
        patch = os.path.join(d, "patch.diff")
        d_ = det.get(patch, {})
        detected = {k: v for k, v in d_.items() if v["rc"] == 1}
        old = json.load(open(os.path.join(dst, "meta.json"))) if os.path.exists(os.path.join(dst, "meta.json")) else {}
        meta = dict(
            id=name, summary=SUMM.get(name, ""), breaks_property=prop, origin="independent sub-agent, given only the property text and a scratch worktree (round %s)" % rnd[1],
            files_changed=sorted(set(re.findall(r"^\+\+\+ b/(\S+)", open(patch).read(), re.M))),
            needs_to_manifest=needs or "see notes.md",
            confirmed=dict(by="tools/confirm_seed.sh in a scratch worktree of /repo HEAD", patch_applies=c["applies"], builds_default_and_no_default_features=c["builds"],
                           pinned_suite_passes_on_mutant=c["suite_passes"], demo_fails_on_mutant=c["demo_fails_on_mutant"], demo_passes_on_unmodified=c["demo_passes_on_original"], demo_cmd=c.get("demo_cmd", "")),
            checks_run={k: ("VIOLATION (exit 1): " + v["first"]) if v["rc"] == 1 else ("not detected (exit %d)" % v["rc"]) for k, v in d_.items()},
            detected_by=sorted(detected.keys()),
        )
        fs = first_seen.get(patch, {}).get(prop)
        if old.get("history"):
            meta["history"] = old["history"]
        elif fs and fs["rc"] != 1 and prop in detected:
            meta["history"] = "First run of the property's own quick check: not reported (exit %d). The check was then strengthened (DESIGN.md 8.5 / 9); reported since." % fs["rc"]
        meta["first_run_of_own_check"] = ("reported" if fs and fs["rc"] == 1 else "NOT reported (exit %s)" % (fs["rc"] if fs else "?"))
        json.dump(meta, open(os.path.join(dst, "meta.json"), "w"), indent=1)
        rows.append((name, prop, sorted(detected.keys()), sorted(k for k, v in d_.items() if v["rc"] != 1)))
for r in rows:
    print("%-12s own-check:%s detected_by=%s missed_by=%s" % (r[0], "yes" if r[1] in r[2] else "NO ", ",".join(r[2]) or "-", ",".join(r[3]) or "-"))
