#!/bin/bash
# confirm_seed.sh <PROP> <mN> : confirm a sub-agent's mutation in a scratch worktree of /repo HEAD:
#  (1) patch applies, builds (default + no-default-features), (2) pinned suite passes on the mutant,
#  (3) demo fails on the mutant, (4) demo passes on the unmodified tree. Writes /tmp/mutout/<PROP>/<mN>/confirm.json
P=$1; M=$2; SRC=${MUTOUT:-/tmp/mutout}/$P/$M; WT=/tmp/wt_$P$M; OUT=$SRC/confirm.json
export CARGO_NET_OFFLINE=true CARGO_TARGET_DIR=$WT/target
rm -rf $WT; git -C /repo worktree add -q --detach $WT HEAD || exit 2
cd $WT
res() { echo "{\"prop\":\"$P\",\"mut\":\"$M\",\"applies\":$1,\"builds\":$2,\"suite_passes\":$3,\"demo_fails_on_mutant\":$4,\"demo_passes_on_original\":$5,\"demo_cmd\":\"$6\",\"note\":\"$7\"}" > $OUT; cat $OUT; }
cleanup() { cd /; git -C /repo worktree remove --force $WT; }
if ! git apply --check $SRC/patch.diff 2>/dev/null; then res false false false false false "" "patch does not apply to current HEAD"; cleanup; exit 0; fi
git apply $SRC/patch.diff
B=true; cargo build --offline -q 2>/dev/null || B=false; cargo build --offline -q --no-default-features 2>/dev/null || B=false
if [ $B = false ]; then res true false false false false "" "build failed"; cleanup; exit 0; fi
S=true; cargo test --workspace --no-fail-fast --offline >$WT/suite.log 2>&1 || S=false
# demo: default = integration test file; MIRI=1 env to run under miri; RELEASE=1 for --release
DEMO=demo_$M; cp $SRC/${DEMO_FILE:-demo.rs} tests/$DEMO.rs
MODE=""; [ -n "$RELEASE" ] && MODE="--release"
if [ -n "$USE_MIRI" ]; then CMD="cargo +nightly miri test --offline --test $DEMO"; export MIRIFLAGS="-Zmiri-disable-isolation -Zmiri-ignore-leaks"; else CMD="cargo test --offline $MODE $CARGO_EXTRA --test $DEMO"; fi
F=false; timeout 900 $CMD >$WT/demo_mut.log 2>&1 || F=true
git apply -R $SRC/patch.diff
O=true; timeout 900 $CMD >$WT/demo_orig.log 2>&1 || O=false
res true $B $S $F $O "$CMD" ""
[ $O = false ] && tail -20 $WT/demo_orig.log
cleanup
