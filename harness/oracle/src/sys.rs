//! Process-level plumbing: crash handlers that dump the current history, fork-isolated
//! probes, raw stderr writes (no allocation, usable from the allocator / signal handlers).

use std::cell::UnsafeCell;

pub fn write_fd(fd: i32, b: &[u8]) {
    unsafe {
        let mut off = 0;
        while off < b.len() {
            let n = libc::write(fd, b.as_ptr().add(off) as *const libc::c_void, b.len() - off);
            if n <= 0 {
                break;
            }
            off += n as usize;
        }
    }
}
pub fn write_stderr(b: &[u8]) {
    write_fd(2, b)
}

/// Text describing what the process is doing right now (the current history); dumped
/// by the crash handler. Fixed buffer: no allocation when updating it.
pub struct CrashNote {
    len: usize,
    buf: [u8; 4096],
}
struct G(UnsafeCell<CrashNote>);
unsafe impl Sync for G {}
static NOTE: G = G(UnsafeCell::new(CrashNote { len: 0, buf: [0; 4096] }));
static mut CRASH_FD: i32 = 2;

pub fn set_crash_note(s: &str) {
    let n = unsafe { &mut *NOTE.0.get() };
    let b = s.as_bytes();
    let l = b.len().min(n.buf.len());
    n.buf[..l].copy_from_slice(&b[..l]);
    n.len = l;
}

pub fn crash_note() -> String {
    let n = unsafe { &*NOTE.0.get() };
    String::from_utf8_lossy(&n.buf[..n.len]).to_string()
}

pub fn set_crash_fd(fd: i32) {
    unsafe { CRASH_FD = fd }
}

extern "C" fn on_crash(sig: libc::c_int) {
    unsafe {
        let fd = CRASH_FD;
        let name: &[u8] = match sig {
            libc::SIGSEGV => b"SIGSEGV",
            libc::SIGABRT => b"SIGABRT",
            libc::SIGBUS => b"SIGBUS",
            libc::SIGILL => b"SIGILL",
            libc::SIGFPE => b"SIGFPE",
            _ => b"SIGNAL",
        };
        write_fd(fd, b"\nCRASH signal=");
        write_fd(fd, name);
        write_fd(fd, if crate::oom_hit() { b" oom=1" } else { b" oom=0" });
        write_fd(fd, b" note=");
        let n = &*NOTE.0.get();
        write_fd(fd, &n.buf[..n.len]);
        write_fd(fd, b"\n");
        // 70 = crash, 71 = crash after the allocator's OOM marker
        libc::_exit(if crate::oom_hit() { 71 } else { 70 });
    }
}

/// Install handlers for SIGSEGV / SIGABRT / SIGBUS / SIGILL / SIGFPE that print a
/// `CRASH signal=... note=<current history>` line and exit with code 70 (71 after OOM).
pub fn install_crash_handlers() {
    if cfg!(miri) {
        return; // the interpreter reports undefined behaviour itself
    }
    unsafe {
        // alternate stack so that stack overflows are reported too
        let sz = 1 << 16;
        let stack = libc::mmap(
            core::ptr::null_mut(),
            sz,
            libc::PROT_READ | libc::PROT_WRITE,
            libc::MAP_PRIVATE | libc::MAP_ANONYMOUS,
            -1,
            0,
        );
        if stack != libc::MAP_FAILED {
            let ss = libc::stack_t { ss_sp: stack, ss_flags: 0, ss_size: sz };
            libc::sigaltstack(&ss, core::ptr::null_mut());
        }
        for &sig in &[libc::SIGSEGV, libc::SIGABRT, libc::SIGBUS, libc::SIGILL, libc::SIGFPE] {
            let mut sa: libc::sigaction = core::mem::zeroed();
            sa.sa_sigaction = on_crash as *const () as usize;
            sa.sa_flags = libc::SA_ONSTACK | libc::SA_NODEFER;
            libc::sigemptyset(&mut sa.sa_mask);
            libc::sigaction(sig, &sa, core::ptr::null_mut());
        }
    }
}

static WD_LAST: core::sync::atomic::AtomicU64 = core::sync::atomic::AtomicU64::new(u64::MAX);
static WD_STALLS: core::sync::atomic::AtomicU64 = core::sync::atomic::AtomicU64::new(0);
static WD_LIMIT: core::sync::atomic::AtomicU64 = core::sync::atomic::AtomicU64::new(3);

extern "C" fn on_tick(_sig: libc::c_int) {
    use core::sync::atomic::Ordering::Relaxed;
    let now = crate::EXECUTIONS.load(Relaxed);
    if now == WD_LAST.load(Relaxed) && crate::in_subject() {
        let n = WD_STALLS.fetch_add(1, Relaxed) + 1;
        if n >= WD_LIMIT.load(Relaxed) {
            unsafe {
                let fd = CRASH_FD;
                write_fd(fd, b"\nCRASH signal=HANG oom=0 note=");
                let n = &*NOTE.0.get();
                write_fd(fd, &n.buf[..n.len]);
                write_fd(fd, b"\n");
                libc::_exit(70);
            }
        }
    } else {
        WD_STALLS.store(0, Relaxed);
        WD_LAST.store(now, Relaxed);
    }
}

/// Opt-in watchdog for engines whose executions are micro-operations: a timer on the CPU time of this process
/// ticks every `tick_secs`; when `stalls` consecutive ticks find the same execution still inside the crate
/// (attribution window open), the call never returned: `CRASH signal=HANG note=<case>` and exit 70, like a crash.
pub fn arm_hang_watchdog(tick_secs: i64, stalls: u64) {
    if cfg!(miri) {
        return;
    }
    unsafe {
        WD_LIMIT.store(stalls.max(2), core::sync::atomic::Ordering::Relaxed);
        let mut sa: libc::sigaction = core::mem::zeroed();
        sa.sa_sigaction = on_tick as *const () as usize;
        sa.sa_flags = libc::SA_ONSTACK | libc::SA_RESTART;
        libc::sigemptyset(&mut sa.sa_mask);
        libc::sigaction(libc::SIGVTALRM, &sa, core::ptr::null_mut());
        let tv = libc::timeval { tv_sec: tick_secs as _, tv_usec: 0 };
        let it = libc::itimerval { it_interval: tv, it_value: tv };
        libc::setitimer(libc::ITIMER_VIRTUAL, &it, core::ptr::null_mut());
    }
}

/// Reserve `len` bytes of zero-filled, read-only address space (pages are only materialised when read): a way to hold
/// byte strings of 2^31 / 2^32 bytes whose lengths matter and whose contents are never walked. None if refused.
pub fn map_zero_readonly(len: usize) -> Option<*const u8> {
    if cfg!(miri) {
        return None;
    }
    unsafe {
        let p = libc::mmap(core::ptr::null_mut(), len, libc::PROT_READ, libc::MAP_PRIVATE | libc::MAP_ANONYMOUS | libc::MAP_NORESERVE, -1, 0);
        if p == libc::MAP_FAILED {
            None
        } else {
            Some(p as *const u8)
        }
    }
}
pub fn unmap(p: *const u8, len: usize) {
    unsafe {
        libc::munmap(p as *mut _, len);
    }
}

/// Outcome of a fork-isolated probe.
#[derive(Debug, Clone, PartialEq, Eq)]
pub enum ProbeOutcome {
    /// child exited normally with this code (0..=63 are the probe's own codes)
    Exit(i32),
    /// child crashed (signal) without the OOM marker; `out` is what it wrote to the pipe
    Crash(String),
    /// child aborted after the allocator refused an allocatable-but-huge request
    Oom,
}

/// Run `f` in a forked child. The child's return value (0..=63) becomes `Exit(code)`;
/// text written with `probe_say` is returned to the parent through a pipe.
pub fn fork_probe(f: impl FnOnce() -> i32) -> (ProbeOutcome, String) {
    unsafe {
        let mut fds = [0i32; 2];
        if libc::pipe(fds.as_mut_ptr()) != 0 {
            return (ProbeOutcome::Crash("pipe() failed".into()), String::new());
        }
        let pid = libc::fork();
        if pid < 0 {
            return (ProbeOutcome::Crash("fork() failed".into()), String::new());
        }
        if pid == 0 {
            libc::close(fds[0]);
            CRASH_FD = fds[1];
            PROBE_FD = fds[1];
            let code = f();
            libc::_exit(code & 63);
        }
        libc::close(fds[1]);
        let mut out = Vec::new();
        let mut buf = [0u8; 4096];
        loop {
            let n = libc::read(fds[0], buf.as_mut_ptr() as *mut libc::c_void, buf.len());
            if n <= 0 {
                break;
            }
            out.extend_from_slice(&buf[..n as usize]);
        }
        libc::close(fds[0]);
        let mut status = 0i32;
        libc::waitpid(pid, &mut status, 0);
        let text = String::from_utf8_lossy(&out).into_owned();
        let oc = if libc::WIFEXITED(status) {
            match libc::WEXITSTATUS(status) {
                71 => ProbeOutcome::Oom,
                70 => ProbeOutcome::Crash(text.clone()),
                c => ProbeOutcome::Exit(c),
            }
        } else {
            ProbeOutcome::Crash(format!("killed by signal {} {}", libc::WTERMSIG(status), text))
        };
        (oc, text)
    }
}

static mut PROBE_FD: i32 = -1;
pub fn in_probe_child() -> bool {
    unsafe { PROBE_FD >= 0 }
}
pub fn exit_now(code: i32) -> ! {
    unsafe { libc::_exit(code) }
}
/// Inside a fork_probe child: send text to the parent.
pub fn probe_say(s: &str) {
    unsafe {
        if PROBE_FD >= 0 {
            write_fd(PROBE_FD, s.as_bytes());
        }
    }
}
