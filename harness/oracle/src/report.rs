//! Minimal JSON writer and the result record every engine prints on stdout (one line,
//! prefixed with `RESULT `). The python driver merges records into evidence files.

pub fn jstr(s: &str) -> String {
    let mut o = String::with_capacity(s.len() + 2);
    o.push('"');
    for c in s.chars() {
        match c {
            '"' => o.push_str("\\\""),
            '\\' => o.push_str("\\\\"),
            '\n' => o.push_str("\\n"),
            '\r' => o.push_str("\\r"),
            '\t' => o.push_str("\\t"),
            c if (c as u32) < 0x20 => o.push_str(&format!("\\u{:04x}", c as u32)),
            c => o.push(c),
        }
    }
    o.push('"');
    o
}

#[derive(Default, Clone, Debug)]
pub struct Violation {
    pub property: String,
    /// stable identity of the failing case (used to match known findings)
    pub case: String,
    pub msg: String,
    /// JSON value describing how to replay (already serialised)
    pub replay: String,
}

#[derive(Default, Clone, Debug)]
pub struct Report {
    pub engine: String,
    pub property: String,
    pub config: String,
    pub evaluations: u64,
    pub distinct_nontrivial: u64,
    pub states: u64,
    pub transitions: u64,
    pub traces: u64,
    pub programs: u64,
    pub exhaustive: bool,
    pub caps: Vec<String>,
    pub samples: Vec<String>,
    pub violations: Vec<Violation>,
    /// extra (key, already-serialised JSON value) pairs
    pub extra: Vec<(String, String)>,
    pub machinery_error: Option<String>,
}

impl Report {
    pub fn new(engine: &str, property: &str, config: &str) -> Report {
        Report { engine: engine.into(), property: property.into(), config: config.into(), exhaustive: true, ..Default::default() }
    }
    pub fn violate(&mut self, property: &str, case: &str, msg: &str, replay_json: &str) {
        if self.violations.iter().any(|v| v.property == property && v.case == case) {
            return;
        }
        // violations of other properties (reported by those properties' own checks) are kept as notes only and
        // never crowd out or stop the search for violations of the property this run is about
        let own = property == self.property;
        let others = self.violations.iter().filter(|v| v.property != self.property).count();
        if (own && self.violations.len() < 60) || (!own && others < 10) {
            self.violations.push(Violation { property: property.into(), case: case.into(), msg: msg.into(), replay: replay_json.into() });
        }
    }
    /// enough distinct violations of this run's property collected: engines stop exploring (the run is then not exhaustive)
    pub fn saturated(&self) -> bool {
        self.violations.iter().filter(|v| v.property == self.property).count() >= 12
    }
    pub fn sample(&mut self, s: String) {
        if self.samples.len() < 8 {
            self.samples.push(s);
        }
    }
    pub fn extra_num(&mut self, k: &str, v: u64) {
        self.extra.push((k.into(), v.to_string()));
    }
    pub fn extra_str(&mut self, k: &str, v: &str) {
        self.extra.push((k.into(), jstr(v)));
    }
    pub fn to_json(&self) -> String {
        let mut o = String::new();
        o.push('{');
        o.push_str(&format!("\"engine\":{},\"property\":{},\"config\":{},", jstr(&self.engine), jstr(&self.property), jstr(&self.config)));
        o.push_str(&format!(
            "\"evaluations\":{},\"distinct_nontrivial\":{},\"states\":{},\"transitions\":{},\"traces\":{},\"programs\":{},\"exhaustive\":{},",
            self.evaluations, self.distinct_nontrivial, self.states, self.transitions, self.traces, self.programs, self.exhaustive
        ));
        o.push_str("\"caps\":[");
        o.push_str(&self.caps.iter().map(|s| jstr(s)).collect::<Vec<_>>().join(","));
        o.push_str("],\"samples\":[");
        o.push_str(&self.samples.iter().map(|s| jstr(s)).collect::<Vec<_>>().join(","));
        o.push_str("],\"violations\":[");
        o.push_str(
            &self
                .violations
                .iter()
                .map(|v| format!("{{\"property\":{},\"case\":{},\"msg\":{},\"replay\":{}}}", jstr(&v.property), jstr(&v.case), jstr(&v.msg), if v.replay.is_empty() { "null".to_string() } else { v.replay.clone() }))
                .collect::<Vec<_>>()
                .join(","),
        );
        o.push_str("],\"extra\":{");
        o.push_str(&self.extra.iter().map(|(k, v)| format!("{}:{}", jstr(k), v)).collect::<Vec<_>>().join(","));
        o.push_str("},\"machinery_error\":");
        match &self.machinery_error {
            Some(m) => o.push_str(&jstr(m)),
            None => o.push_str("null"),
        }
        o.push('}');
        o
    }
    pub fn print(&self) {
        println!("RESULT {}", self.to_json());
    }
}

/// FNV-1a 128-bit hash (for seen-sets keyed by canonical state strings / byte keys).
pub fn hash128(data: &[u8]) -> u128 {
    let mut h: u128 = 0x6c62272e07bb014262b821756295c58d;
    for &b in data {
        h ^= b as u128;
        h = h.wrapping_mul(0x0000000001000000000000000000013B);
    }
    h
}
