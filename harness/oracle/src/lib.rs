//! Oracle allocator (DESIGN.md §2.1): a global allocator for the harness binaries that
//! turns silent memory errors of the code under test into hard, attributable findings.
//!
//! * every block carries a header (magic, size, align, flags); `dealloc` validates
//!   pointer and layout (unknown / interior / already-freed pointer, wrong size or align);
//! * blocks allocated while the *subject window* is open are "crate-attributed": they get
//!   a rear canary zone, fresh fill 0xCD, poison 0xDD on free, and are quarantined until
//!   the end of the execution (so stale pointers never alias a new block);
//! * an address map answers "which live crate block contains p";
//! * an event log records crate-attributed alloc/free events per operation;
//! * a parity switch makes align-1 crate blocks start at even or odd addresses;
//! * requests above a cap return null after setting an OOM marker.
//!
//! The allocator never allocates and never panics. Problems are recorded in a fixed
//! buffer and fetched by the harness with `take_violation()`.
//! The harness binaries are single-threaded; the state is a plain static.

use std::alloc::{GlobalAlloc, Layout, System};
use std::cell::UnsafeCell;

pub mod sys;
pub mod report;

pub const FILL_NEW: u8 = 0xCD;
pub const FILL_FREED: u8 = 0xDD;
pub const CANARY: u8 = 0xA5;

const HDR: usize = 32;
const REAR: usize = 16;
const MAGIC_LIVE: u64 = 0x0B5E_55ED_A110_C8ED;
const MAGIC_FREED: u64 = 0xDEAD_F4EE_DB10_C0FF;
const HCANARY: u64 = 0xA5A5_A5A5_A5A5_A5A5;
const F_CRATE: u64 = 1;

pub const MAX_BLOCKS: usize = 4096;
pub const MAX_EVENTS: usize = 256;
pub const MAX_REGIONS: usize = 32;

#[derive(Clone, Copy, Default, Debug)]
pub struct Block {
    pub user: usize,
    pub size: usize,
    pub align: usize,
    pub live: bool,
    pub seq: u32,
    base: usize,
    total: usize,
    balign: usize,
}

#[derive(Clone, Copy, Default, Debug, PartialEq, Eq)]
pub struct Event {
    pub is_alloc: bool,
    pub size: usize,
    pub align: usize,
    pub user: usize,
}

#[derive(Clone, Copy, Default, Debug)]
pub struct Region {
    pub base: usize,
    pub len: usize,
    pub id: u32,
}

pub struct State {
    armed: bool,
    in_subject: bool,
    parity_odd: bool,
    /// adjacent mode: crate-attributed align-1 blocks are carved back to back out of one arena (no header,
    /// no red zone between them), so that code comparing addresses of unrelated buffers meets real adjacency
    adjacent: bool,
    arena_top: usize,
    oom_cap: usize,
    oom_hit: bool,
    seq: u32,
    nblocks: usize,
    blocks: [Block; MAX_BLOCKS],
    nevents: usize,
    events: [Event; MAX_EVENTS],
    events_overflow: bool,
    nregions: usize,
    regions: [Region; MAX_REGIONS],
    vio_len: usize,
    vio: [u8; 512],
    machinery_error: bool,
}

struct Global(UnsafeCell<State>);
unsafe impl Sync for Global {}

const B0: Block = Block { user: 0, size: 0, align: 0, live: false, seq: 0, base: 0, total: 0, balign: 0 };
const E0: Event = Event { is_alloc: false, size: 0, align: 0, user: 0 };
const R0: Region = Region { base: 0, len: 0, id: 0 };

static G: Global = Global(UnsafeCell::new(State {
    armed: false,
    in_subject: false,
    parity_odd: false,
    adjacent: false,
    arena_top: 0,
    oom_cap: 1 << 31,
    oom_hit: false,
    seq: 0,
    nblocks: 0,
    blocks: [B0; MAX_BLOCKS],
    nevents: 0,
    events: [E0; MAX_EVENTS],
    events_overflow: false,
    nregions: 0,
    regions: [R0; MAX_REGIONS],
    vio_len: 0,
    vio: [0; 512],
    machinery_error: false,
}));

pub const ARENA_SIZE: usize = 1 << 17;
#[repr(align(64))]
struct Arena(UnsafeCell<[u8; ARENA_SIZE]>);
unsafe impl Sync for Arena {}
static ARENA: Arena = Arena(UnsafeCell::new([0; ARENA_SIZE]));
#[inline]
fn arena_base() -> usize {
    ARENA.0.get() as usize
}
#[inline]
fn in_arena(p: usize) -> bool {
    p >= arena_base() && p < arena_base() + ARENA_SIZE
}
/// Switch adjacent mode on or off for the executions that follow.
pub fn set_adjacent(on: bool) {
    st().adjacent = on;
}
pub fn is_adjacent() -> bool {
    st().adjacent
}

#[inline]
fn st() -> &'static mut State {
    unsafe { &mut *G.0.get() }
}

pub struct Oracle;

#[repr(C)]
#[derive(Clone, Copy)]
struct Header {
    magic: u64,
    size: u64,
    meta: u64, // align (32 bits) | pad (16 bits) | flags (16 bits)
    canary: u64,
}

struct FixedWriter<'a> {
    buf: &'a mut [u8],
    len: usize,
}
impl<'a> core::fmt::Write for FixedWriter<'a> {
    fn write_str(&mut self, s: &str) -> core::fmt::Result {
        let b = s.as_bytes();
        let n = b.len().min(self.buf.len() - self.len);
        self.buf[self.len..self.len + n].copy_from_slice(&b[..n]);
        self.len += n;
        Ok(())
    }
}

fn violate(args: core::fmt::Arguments<'_>) {
    let s = st();
    if s.vio_len != 0 {
        return; // keep the first one
    }
    let mut w = FixedWriter { buf: &mut s.vio, len: 0 };
    let _ = core::fmt::write(&mut w, args);
    s.vio_len = w.len.max(1);
}

unsafe impl GlobalAlloc for Oracle {
    unsafe fn alloc(&self, layout: Layout) -> *mut u8 {
        let s = st();
        let size = layout.size();
        let align = layout.align();
        let is_crate = s.armed && s.in_subject;
        if is_crate && size > s.oom_cap {
            s.oom_hit = true;
            if sys::in_probe_child() {
                // fork-isolated probe: report "allocation failure" straight away instead of
                // going through handle_alloc_error (which symbolises a backtrace)
                sys::exit_now(71);
            }
            sys::write_stderr(b"ORACLE-OOM-MARKER\n");
            return core::ptr::null_mut();
        }
        if is_crate && align == 1 && s.adjacent && s.arena_top + size <= ARENA_SIZE && s.nblocks < MAX_BLOCKS {
            let user = (arena_base() + s.arena_top) as *mut u8;
            s.arena_top += size;
            core::ptr::write_bytes(user, FILL_NEW, size);
            s.seq += 1;
            s.blocks[s.nblocks] = Block { user: user as usize, size, align, live: true, seq: s.seq, base: 0, total: 0, balign: 0 };
            s.nblocks += 1;
            log_event(s, Event { is_alloc: true, size, align, user: user as usize });
            return user;
        }
        let odd = is_crate && align == 1 && s.parity_odd;
        let balign = if align < 16 { 16 } else { align };
        let pad = if align > HDR { align } else { HDR } + if odd { 1 } else { 0 };
        let total = pad + size + REAR;
        let base = System.alloc(Layout::from_size_align_unchecked(total, balign));
        if base.is_null() {
            return base;
        }
        let user = base.add(pad);
        let hdr = Header {
            magic: MAGIC_LIVE,
            size: size as u64,
            meta: ((align as u64) << 32) | ((pad as u64) << 16) | if is_crate { F_CRATE } else { 0 },
            canary: HCANARY,
        };
        core::ptr::write_unaligned(user.sub(HDR) as *mut Header, hdr);
        if is_crate {
            core::ptr::write_bytes(user, FILL_NEW, size);
            core::ptr::write_bytes(user.add(size), CANARY, REAR);
            s.seq += 1;
            if s.nblocks < MAX_BLOCKS {
                s.blocks[s.nblocks] = Block {
                    user: user as usize,
                    size,
                    align,
                    live: true,
                    seq: s.seq,
                    base: base as usize,
                    total,
                    balign,
                };
                s.nblocks += 1;
            } else {
                s.machinery_error = true;
            }
            log_event(s, Event { is_alloc: true, size, align, user: user as usize });
        }
        user
    }

    unsafe fn dealloc(&self, ptr: *mut u8, layout: Layout) {
        let s = st();
        if in_arena(ptr as usize) {
            // adjacent mode: the ledger is the only metadata
            let p = ptr as usize;
            let mut hit: Option<usize> = None;
            for (i, b) in s.blocks[..s.nblocks].iter().enumerate() {
                if b.base == 0 && b.user == p {
                    hit = Some(i);
                    if b.live {
                        break;
                    }
                }
            }
            match hit {
                Some(i) if s.blocks[i].live => {
                    let b = s.blocks[i];
                    if b.size != layout.size() || b.align != layout.align() {
                        violate(format_args!(
                            "free with wrong layout: block allocated with size={} align={}, freed with size={} align={}",
                            b.size, b.align, layout.size(), layout.align()
                        ));
                    }
                    s.blocks[i].live = false;
                    core::ptr::write_bytes(ptr, FILL_FREED, b.size);
                    log_event(s, Event { is_alloc: false, size: b.size, align: b.align, user: p });
                }
                Some(i) => {
                    violate(format_args!(
                        "double free of a block of size {} (freed again with size={} align={})",
                        s.blocks[i].size, layout.size(), layout.align()
                    ));
                }
                None => {
                    let mut done = false;
                    for b in s.blocks[..s.nblocks].iter() {
                        if b.base == 0 && p > b.user && p < b.user + b.size.max(1) {
                            violate(format_args!(
                                "free of interior pointer: offset {} into a {} block of size {} (layout size={} align={})",
                                p - b.user, if b.live { "live" } else { "freed" }, b.size, layout.size(), layout.align()
                            ));
                            done = true;
                            break;
                        }
                    }
                    if !done {
                        violate(format_args!("free of a pointer that was never allocated (layout size={} align={})", layout.size(), layout.align()));
                    }
                }
            }
            return;
        }
        let hdr = core::ptr::read_unaligned(ptr.sub(HDR) as *const Header);
        if hdr.magic == MAGIC_LIVE && hdr.canary == HCANARY {
            let size = hdr.size as usize;
            let align = (hdr.meta >> 32) as usize;
            let pad = ((hdr.meta >> 16) & 0xffff) as usize;
            let is_crate = hdr.meta & F_CRATE != 0;
            if size != layout.size() || align != layout.align() {
                violate(format_args!(
                    "free with wrong layout: block allocated with size={} align={}, freed with size={} align={}",
                    size, align, layout.size(), layout.align()
                ));
            }
            let mut h2 = hdr;
            h2.magic = MAGIC_FREED;
            core::ptr::write_unaligned(ptr.sub(HDR) as *mut Header, h2);
            if is_crate {
                // rear canary
                for i in 0..REAR {
                    if *ptr.add(size + i) != CANARY {
                        violate(format_args!(
                            "heap overflow: byte {} past the end of a block of size {} was overwritten",
                            i, size
                        ));
                        break;
                    }
                }
                core::ptr::write_bytes(ptr, FILL_FREED, size);
                let mut found = false;
                for b in s.blocks[..s.nblocks].iter_mut() {
                    if b.user == ptr as usize && b.live {
                        b.live = false;
                        found = true;
                        break;
                    }
                }
                log_event(s, Event { is_alloc: false, size, align, user: ptr as usize });
                if !found {
                    // A crate-attributed block that outlived its execution (it was reported
                    // as leaked by end_execution, e.g. a diagnostic string built inside the
                    // window on a violation path): release it directly.
                    let balign = if align < 16 { 16 } else { align };
                    System.dealloc(ptr.sub(pad), Layout::from_size_align_unchecked(pad + size + REAR, balign));
                }
                // otherwise quarantined: released in end_execution
            } else {
                let balign = if align < 16 { 16 } else { align };
                System.dealloc(ptr.sub(pad), Layout::from_size_align_unchecked(pad + size + REAR, balign));
            }
        } else if hdr.magic == MAGIC_FREED {
            violate(format_args!(
                "double free of a block of size {} (freed again with size={} align={})",
                hdr.size, layout.size(), layout.align()
            ));
        } else {
            // unknown pointer: refine with the ledger
            let p = ptr as usize;
            let mut msg_done = false;
            for b in s.blocks[..s.nblocks].iter() {
                if p > b.user && p < b.user + b.size.max(1) {
                    violate(format_args!(
                        "free of interior pointer: offset {} into a {} block of size {} (layout size={} align={})",
                        p - b.user, if b.live { "live" } else { "freed" }, b.size, layout.size(), layout.align()
                    ));
                    msg_done = true;
                    break;
                }
            }
            if !msg_done {
                violate(format_args!(
                    "free of a pointer that was never allocated or whose header was overwritten (heap underflow?) (layout size={} align={})",
                    layout.size(), layout.align()
                ));
            }
        }
    }
}

fn log_event(s: &mut State, e: Event) {
    if s.nevents < MAX_EVENTS {
        s.events[s.nevents] = e;
        s.nevents += 1;
    } else {
        s.events_overflow = true;
    }
}

// ---------------------------------------------------------------------------------
// harness API
// ---------------------------------------------------------------------------------

/// Start a fresh execution: empty ledger, armed.
/// Number of executions begun so far (read by the hang watchdog).
pub static EXECUTIONS: core::sync::atomic::AtomicU64 = core::sync::atomic::AtomicU64::new(0);

pub fn begin_execution(parity_odd: bool) {
    EXECUTIONS.fetch_add(1, core::sync::atomic::Ordering::Relaxed);
    let s = st();
    s.armed = true;
    s.in_subject = false;
    s.parity_odd = parity_odd;
    s.arena_top = if parity_odd { 1 } else { 0 };
    s.nblocks = 0;
    s.nevents = 0;
    s.events_overflow = false;
    s.nregions = 0;
    s.vio_len = 0;
    s.oom_hit = false;
}

#[derive(Default, Debug, Clone)]
pub struct EndReport {
    pub leaked: Vec<(usize, usize)>, // (size, align)
    pub corrupt: Option<String>,
}

/// End the execution: verify poison and canaries of every crate block, release the
/// quarantine, report still-live crate blocks as leaks (they are intentionally not
/// returned to the system allocator).
pub fn end_execution() -> EndReport {
    let s = st();
    s.armed = false;
    s.in_subject = false;
    let mut rep = EndReport::default();
    let n = s.nblocks;
    for i in 0..n {
        let b = s.blocks[i];
        if b.base == 0 {
            // arena block (adjacent mode): no canary, never returned to the system
            if b.live {
                rep.leaked.push((b.size, b.align));
            } else {
                unsafe {
                    let p = b.user as *const u8;
                    for k in 0..b.size {
                        if *p.add(k) != FILL_FREED {
                            if rep.corrupt.is_none() {
                                rep.corrupt = Some(format!("write after free: byte {} of a freed block of size {} was modified", k, b.size));
                            }
                            break;
                        }
                    }
                }
            }
            continue;
        }
        unsafe {
            let p = b.user as *const u8;
            for k in 0..REAR {
                if *p.add(b.size + k) != CANARY && rep.corrupt.is_none() {
                    rep.corrupt = Some(format!(
                        "heap overflow: byte {} past the end of a block of size {} was overwritten",
                        k, b.size
                    ));
                }
            }
            if b.live {
                rep.leaked.push((b.size, b.align));
                // Intentionally NOT returned to the system: the block may still be owned by a live
                // object (a diagnostic string built inside the window on a violation path, or a
                // handle the crate really leaked) and is released by its owner later, if ever.
                // Engines stop exploring after a bounded number of violations, so leaks on a
                // broken crate cannot exhaust memory.
            } else {
                for k in 0..b.size {
                    if *p.add(k) != FILL_FREED {
                        if rep.corrupt.is_none() {
                            rep.corrupt = Some(format!(
                                "write after free: byte {} of a freed block of size {} was modified",
                                k, b.size
                            ));
                        }
                        break;
                    }
                }
                System.dealloc(b.base as *mut u8, Layout::from_size_align_unchecked(b.total, b.balign));
            }
        }
    }
    s.nblocks = 0;
    rep
}

/// Release the quarantine in the middle of a (long) execution: freed crate blocks are
/// verified (poison, canary) and returned to the system; live blocks stay in the ledger.
pub fn flush_quarantine() -> Option<String> {
    let s = st();
    let mut bad = None;
    let mut k = 0;
    for i in 0..s.nblocks {
        let b = s.blocks[i];
        if b.live || b.base == 0 {
            s.blocks[k] = b;
            k += 1;
            continue;
        }
        unsafe {
            let p = b.user as *const u8;
            for j in 0..b.size {
                if *p.add(j) != FILL_FREED {
                    bad = Some(format!("write after free: byte {} of a freed block of size {} was modified", j, b.size));
                    break;
                }
            }
            System.dealloc(b.base as *mut u8, Layout::from_size_align_unchecked(b.total, b.balign));
        }
    }
    s.nblocks = k;
    bad
}

#[inline]
pub fn enter_subject() {
    st().in_subject = true;
}
#[inline]
pub fn exit_subject() {
    st().in_subject = false;
}
#[inline]
pub fn in_subject() -> bool {
    st().in_subject
}

/// Run `f` with the attribution window open.
#[inline]
pub fn subject<R>(f: impl FnOnce() -> R) -> R {
    let prev = st().in_subject;
    st().in_subject = true;
    let r = f();
    st().in_subject = prev;
    r
}

/// Run `f` with the attribution window closed (harness code called from the crate).
#[inline]
pub fn harness<R>(f: impl FnOnce() -> R) -> R {
    let prev = st().in_subject;
    st().in_subject = false;
    let r = f();
    st().in_subject = prev;
    r
}

pub fn take_violation() -> Option<String> {
    let s = st();
    if s.vio_len == 0 {
        return None;
    }
    let v = String::from_utf8_lossy(&s.vio[..s.vio_len]).into_owned();
    s.vio_len = 0;
    Some(v)
}

pub fn machinery_error() -> bool {
    st().machinery_error
}
pub fn oom_hit() -> bool {
    st().oom_hit
}
pub fn set_oom_cap(n: usize) {
    st().oom_cap = n;
}

pub fn clear_events() {
    let s = st();
    s.nevents = 0;
    s.events_overflow = false;
}
pub fn events() -> &'static [Event] {
    let s = st();
    &s.events[..s.nevents]
}
pub fn events_overflowed() -> bool {
    st().events_overflow
}

/// All crate-attributed blocks of this execution (live and quarantined).
pub fn blocks() -> &'static [Block] {
    let s = st();
    &s.blocks[..s.nblocks]
}

/// Index (into `blocks()`) of the live crate block whose range [user, user+size] contains `addr`.
pub fn find_live(addr: usize) -> Option<usize> {
    let s = st();
    // strictly inside first (adjacent blocks share their boundary address), then one-past-the-end
    for (i, b) in s.blocks[..s.nblocks].iter().enumerate() {
        if b.live && addr >= b.user && addr < b.user + b.size {
            return Some(i);
        }
    }
    for (i, b) in s.blocks[..s.nblocks].iter().enumerate() {
        if b.live && addr >= b.user && addr <= b.user + b.size {
            return Some(i);
        }
    }
    None
}

/// Index of any (live or freed) crate block containing `addr`.
pub fn find_any(addr: usize) -> Option<usize> {
    let s = st();
    for (i, b) in s.blocks[..s.nblocks].iter().enumerate() {
        if addr >= b.user && addr < b.user + b.size {
            return Some(i);
        }
    }
    for (i, b) in s.blocks[..s.nblocks].iter().enumerate() {
        if addr >= b.user && addr <= b.user + b.size {
            return Some(i);
        }
    }
    None
}

pub fn live_bytes() -> usize {
    let s = st();
    s.blocks[..s.nblocks].iter().filter(|b| b.live).map(|b| b.size).sum()
}

pub fn register_region(base: usize, len: usize, id: u32) {
    let s = st();
    if s.nregions < MAX_REGIONS {
        s.regions[s.nregions] = Region { base, len, id };
        s.nregions += 1;
    } else {
        s.machinery_error = true;
    }
}
pub fn unregister_region(id: u32) {
    let s = st();
    let mut k = 0;
    for i in 0..s.nregions {
        if s.regions[i].id != id {
            s.regions[k] = s.regions[i];
            k += 1;
        }
    }
    s.nregions = k;
}
pub fn find_region(addr: usize) -> Option<Region> {
    let s = st();
    for r in s.regions[..s.nregions].iter() {
        if addr >= r.base && addr <= r.base + r.len {
            return Some(*r);
        }
    }
    None
}

/// Verify header and rear canary of every live crate block (cheap; few blocks).
pub fn check_canaries() -> Option<String> {
    let s = st();
    for b in s.blocks[..s.nblocks].iter() {
        if b.base == 0 {
            if !b.live {
                unsafe {
                    let p = b.user as *const u8;
                    for k in 0..b.size {
                        if *p.add(k) != FILL_FREED {
                            return Some(format!("write after free: byte {} of a freed block of size {} was modified", k, b.size));
                        }
                    }
                }
            }
            continue;
        }
        unsafe {
            let p = b.user as *const u8;
            for k in 0..REAR {
                if *p.add(b.size + k) != CANARY {
                    return Some(format!(
                        "heap overflow: byte {} past the end of a block of size {} was overwritten",
                        k, b.size
                    ));
                }
            }
            let hdr = core::ptr::read_unaligned(p.sub(HDR) as *const Header);
            let want = if b.live { MAGIC_LIVE } else { MAGIC_FREED };
            if hdr.magic != want || hdr.canary != HCANARY || hdr.size as usize != b.size {
                return Some(format!(
                    "heap underflow: header in front of a block of size {} was overwritten",
                    b.size
                ));
            }
            if !b.live {
                for k in 0..b.size {
                    if *p.add(k) != FILL_FREED {
                        return Some(format!(
                            "write after free: byte {} of a freed block of size {} was modified",
                            k, b.size
                        ));
                    }
                }
            }
        }
    }
    None
}

/// Install a silent panic hook and perform one warm-up panic so that the panic
/// machinery's one-time allocations happen outside any attribution window.
struct PanicNote {
    len: usize,
    buf: [u8; 400],
    in_subject: bool,
}
struct PN(core::cell::UnsafeCell<PanicNote>);
unsafe impl Sync for PN {}
static PANIC_NOTE: PN = PN(core::cell::UnsafeCell::new(PanicNote { len: 0, buf: [0; 400], in_subject: false }));
struct NoteWriter<'a>(&'a mut PanicNote);
impl<'a> core::fmt::Write for NoteWriter<'a> {
    fn write_str(&mut self, s: &str) -> core::fmt::Result {
        let b = s.as_bytes();
        let room = self.0.buf.len() - self.0.len;
        let l = b.len().min(room);
        self.0.buf[self.0.len..self.0.len + l].copy_from_slice(&b[..l]);
        self.0.len += l;
        Ok(())
    }
}

/// Message and location of the most recent panic (recorded without allocating).
pub fn last_panic() -> String {
    let n = unsafe { &*PANIC_NOTE.0.get() };
    String::from_utf8_lossy(&n.buf[..n.len]).replace('\n', " ")
}
/// Was the most recent panic raised inside the subject window (i.e. by crate code)?
pub fn last_panic_in_subject() -> bool {
    unsafe { (*PANIC_NOTE.0.get()).in_subject }
}

pub fn quiet_panics() {
    // panics raised inside the subject window are expected (contract violations under test)
    // and stay silent; a panic of the harness itself is reported
    std::panic::set_hook(Box::new(|info| {
        {
            use core::fmt::Write;
            let n = unsafe { &mut *PANIC_NOTE.0.get() };
            n.len = 0;
            n.in_subject = in_subject();
            let _ = write!(NoteWriter(n), "{}", info);
        }
        if !in_subject() {
            let msg = format!("HARNESS PANIC: {}\n", info);
            sys::write_stderr(msg.as_bytes());
        }
    }));
    enter_subject();
    let _ = std::panic::catch_unwind(|| {
        panic!("warm-up {}", 1);
    });
    exit_subject();
}

/// Run crate code inside the subject window and catch a panic: Err carries message and location.
pub fn subject_try<R>(f: impl FnOnce() -> R) -> Result<R, String> {
    let prev = st().in_subject;
    st().in_subject = true;
    let r = std::panic::catch_unwind(std::panic::AssertUnwindSafe(f));
    let out = match r {
        Ok(v) => Ok(v),
        Err(p) => {
            drop(p);
            Err(last_panic())
        }
    };
    st().in_subject = prev;
    out
}

/// Top level of an engine process: a panic that nobody caught and that was raised inside the subject
/// window is crate code panicking where no panic is allowed - reported like a crash (exit 70, CRASH line
/// with the current crash note), so that the driver turns it into a replayable violation instead of a
/// machinery error. A panic of the harness itself keeps exit status 101.
pub fn run_engine(f: impl FnOnce()) {
    let r = std::panic::catch_unwind(std::panic::AssertUnwindSafe(f));
    if r.is_err() {
        if last_panic_in_subject() {
            st().in_subject = false;
            let msg = format!("\nCRASH signal=PANIC(uncaught panic in crate code: {}) oom=0 note={}\n", last_panic(), sys::crash_note());
            sys::write_stderr(msg.as_bytes());
            std::process::exit(70);
        }
        std::process::exit(101);
    }
}
