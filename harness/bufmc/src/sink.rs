//! Engine B, write side (DESIGN.md §3 C11, C12): every BufMut target the crate provides,
//! in nestings, at many sizes and fill levels, x the complete put table x write sequences;
//! oracle = appended bytes in call order + a structural model (limits, per-leaf contents),
//! guard bytes around every fixed-size target.
use crate::cursor::{self, Spec, Tree};
use bytes::buf::{Chain, Limit, UninitSlice, Writer};
use bytes::{Buf, BufMut, BytesMut};
use oracle::report::Report;
use std::collections::BTreeSet;
use std::io::Write;
use std::mem::MaybeUninit;
use std::panic::{catch_unwind, AssertUnwindSafe};

pub struct SinkRef(pub &'static mut Sink);
impl Drop for SinkRef {
    fn drop(&mut self) {
        let p = self.0 as *mut Sink;
        unsafe { drop(Box::from_raw(p)) };
    }
}

pub enum Sink {
    Vec(Vec<u8>),
    BytesMut(BytesMut),
    Slice(&'static mut [u8]),
    Uninit(&'static mut [MaybeUninit<u8>]),
    Limit(Limit<Box<Sink>>),
    Chain(Chain<Box<Sink>, Box<Sink>>),
    Ref(SinkRef),
    Dyn(Box<dyn BufMut>),
}

include!("gen_bufmut.rs");

// ------------------------------------------------------------------ arena for fixed-size targets

const ARENA: usize = 512;
const GUARD: u8 = 0xEE;
static mut ARENA_MEM: [u8; ARENA] = [GUARD; ARENA];
fn arena() -> &'static mut [u8; ARENA] {
    unsafe { &mut *core::ptr::addr_of_mut!(ARENA_MEM) }
}

#[derive(Clone, Debug, PartialEq, Eq, Hash)]
pub enum SSpec {
    /// initial length, spare capacity
    Vec(usize, usize),
    /// representation (0 inline, 1 inline with front offset, 2 shared, 3 shared + sole owner + front offset + room behind the window), initial length, spare capacity
    BytesMut(u8, usize, usize),
    Slice(usize),
    Uninit(usize),
    Limit(Box<SSpec>, usize),
    Chain(Box<SSpec>, Box<SSpec>),
    Ref(Box<SSpec>),
    Dyn(Box<SSpec>),
}

#[derive(Clone, Debug, PartialEq, Eq)]
pub enum SM {
    /// growable: contents, maximum length
    Grow(Vec<u8>, usize),
    /// fixed: arena offset, capacity, bytes written so far
    Fixed(usize, usize, Vec<u8>),
    Limit(Box<SM>, usize),
    Chain(Box<SM>, Box<SM>),
    Wrap(Box<SM>),
}
impl SM {
    pub fn rem(&self) -> usize {
        match self {
            SM::Grow(d, max) => max - d.len(),
            SM::Fixed(_, cap, w) => cap - w.len(),
            SM::Limit(m, l) => m.rem().min(*l),
            SM::Chain(a, b) => a.rem().saturating_add(b.rem()),
            SM::Wrap(m) => m.rem(),
        }
    }
    /// append `b` (caller checked b.len() <= rem())
    pub fn write(&mut self, b: &[u8]) {
        match self {
            SM::Grow(d, _) => d.extend_from_slice(b),
            SM::Fixed(_, _, w) => w.extend_from_slice(b),
            SM::Limit(m, l) => {
                m.write(b);
                *l -= b.len();
            }
            SM::Chain(a, bb) => {
                let k = b.len().min(a.rem());
                a.write(&b[..k]);
                bb.write(&b[k..]);
            }
            SM::Wrap(m) => m.write(b),
        }
    }
    fn fixed_only(&self) -> bool {
        match self {
            SM::Grow(..) => false,
            SM::Fixed(..) => true,
            SM::Limit(m, _) | SM::Wrap(m) => m.fixed_only(),
            SM::Chain(a, b) => a.fixed_only() && b.fixed_only(),
        }
    }
}

fn init_bytes(n: usize) -> Vec<u8> {
    (0..n).map(|i| 0xA0 + i as u8).collect()
}

struct Builder {
    next: usize,
}
impl Builder {
    fn region(&mut self, len: usize) -> (usize, *mut u8) {
        let off = self.next + 4;
        self.next = off + len;
        assert!(self.next + 4 <= ARENA, "arena too small");
        (off, unsafe { arena().as_mut_ptr().add(off) })
    }
    fn build(&mut self, s: &SSpec) -> (Sink, SM) {
        match s {
            SSpec::Vec(init, spare) => {
                let mut v = Vec::with_capacity(init + spare);
                v.extend_from_slice(&init_bytes(*init));
                (Sink::Vec(v), SM::Grow(init_bytes(*init), isize::MAX as usize))
            }
            SSpec::BytesMut(rep, init, spare) => {
                let d = init_bytes(*init);
                let m = match rep {
                    0 => {
                        let mut m = BytesMut::with_capacity(init + spare);
                        m.extend_from_slice(&d);
                        m
                    }
                    1 => {
                        let mut m = BytesMut::with_capacity(init + spare + 2);
                        m.extend_from_slice(&[0x5a, 0x5a]);
                        m.extend_from_slice(&d);
                        m.advance(2);
                        m
                    }
                    3 => {
                        // shared representation, sole owner again, front offset 2, and 3 more bytes of the vector behind the window
                        let mut m = BytesMut::with_capacity(init + spare + 5);
                        m.extend_from_slice(&[0x5a, 0x5a]);
                        m.extend_from_slice(&d);
                        drop(m.split_to(2));
                        drop(m.split_off(init + spare));
                        m
                    }
                    4 => {
                        // as 3, then frozen and converted back in place (the capacity is recomputed from the control block's vector)
                        let mut m = BytesMut::with_capacity(init + spare + 5);
                        m.extend_from_slice(&[0x5a, 0x5a]);
                        m.extend_from_slice(&d);
                        drop(m.split_to(2));
                        drop(m.split_off(init + spare));
                        BytesMut::from(m.freeze())
                    }
                    _ => {
                        // shared representation with a pinned neighbour behind the spare capacity
                        let mut m = BytesMut::with_capacity(init + spare + 3);
                        m.extend_from_slice(&d);
                        let tail = m.split_off(init + spare);
                        drop(tail);
                        m
                    }
                };
                (Sink::BytesMut(m), SM::Grow(d, usize::MAX))
            }
            SSpec::Slice(n) => {
                let (off, p) = self.region(*n);
                let sl: &'static mut [u8] = unsafe { core::slice::from_raw_parts_mut(p, *n) };
                (Sink::Slice(sl), SM::Fixed(off, *n, vec![]))
            }
            SSpec::Uninit(n) => {
                let (off, p) = self.region(*n);
                let sl: &'static mut [MaybeUninit<u8>] = unsafe { core::slice::from_raw_parts_mut(p as *mut MaybeUninit<u8>, *n) };
                (Sink::Uninit(sl), SM::Fixed(off, *n, vec![]))
            }
            SSpec::Limit(i, l) => {
                let (t, m) = self.build(i);
                (Sink::Limit(Box::new(t).limit(*l)), SM::Limit(Box::new(m), *l))
            }
            SSpec::Chain(a, b) => {
                let (ta, ma) = self.build(a);
                let (tb, mb) = self.build(b);
                (Sink::Chain(Box::new(ta).chain_mut(Box::new(tb))), SM::Chain(Box::new(ma), Box::new(mb)))
            }
            SSpec::Ref(i) => {
                let (t, m) = self.build(i);
                let b = oracle::harness(|| Box::new(t));
                (Sink::Ref(SinkRef(Box::leak(b))), SM::Wrap(Box::new(m)))
            }
            SSpec::Dyn(i) => {
                let (t, m) = self.build(i);
                (Sink::Dyn(Box::new(t) as Box<dyn BufMut>), SM::Wrap(Box::new(m)))
            }
        }
    }
}

/// Fixed regions of the model: (offset, cap, written)
fn regions(m: &SM, out: &mut Vec<(usize, usize, Vec<u8>)>) {
    match m {
        SM::Grow(..) => {}
        SM::Fixed(o, c, w) => out.push((*o, *c, w.clone())),
        SM::Limit(i, _) | SM::Wrap(i) => regions(i, out),
        SM::Chain(a, b) => {
            regions(a, out);
            regions(b, out);
        }
    }
}

/// The arena must hold exactly: written bytes at the start of each region, GUARD elsewhere.
fn check_arena(m: &SM) -> Result<(), String> {
    let mut want = [GUARD; ARENA];
    let mut rs = vec![];
    regions(m, &mut rs);
    for (o, _c, w) in &rs {
        want[*o..*o + w.len()].copy_from_slice(w);
    }
    let a = arena();
    for i in 0..ARENA {
        if a[i] != want[i] {
            let inside = rs.iter().find(|(o, c, _)| i >= *o && i < *o + *c);
            return Err(match inside {
                Some((o, c, w)) => format!(
                    "fixed-size target of {} bytes: byte {} holds {:02x}, want {:02x} (written so far: {:02x?})",
                    c, i - o, a[i], want[i], w
                ),
                None => format!("byte outside every target's writable region was modified (arena offset {}: {:02x})", i, a[i]),
            });
        }
    }
    Ok(())
}

fn check_struct(t: &Sink, m: &SM) -> Result<(), String> {
    match (t, m) {
        (Sink::Vec(v), SM::Grow(d, _)) => {
            if &v[..] != &d[..] {
                return Err(format!("Vec holds {:02x?}, want {:02x?}", v, d));
            }
            Ok(())
        }
        (Sink::BytesMut(b), SM::Grow(d, _)) => {
            if &b[..] != &d[..] {
                return Err(format!("BytesMut holds {:02x?}, want {:02x?}", &b[..], d));
            }
            Ok(())
        }
        (Sink::Slice(s), SM::Fixed(_, cap, w)) => {
            if s.len() != cap - w.len() {
                return Err(format!("&mut [u8] target has {} bytes left, want {}", s.len(), cap - w.len()));
            }
            Ok(())
        }
        (Sink::Uninit(s), SM::Fixed(_, cap, w)) => {
            if s.len() != cap - w.len() {
                return Err(format!("&mut [MaybeUninit<u8>] target has {} bytes left, want {}", s.len(), cap - w.len()));
            }
            Ok(())
        }
        (Sink::Limit(l), SM::Limit(mi, lim)) => {
            if l.limit() != *lim {
                return Err(format!("Limit::limit() = {}, want {}", l.limit(), lim));
            }
            check_struct(l.get_ref(), mi)
        }
        (Sink::Chain(c), SM::Chain(a, b)) => {
            check_struct(c.first_ref(), a).map_err(|e| format!("Chain::first_ref: {}", e))?;
            check_struct(c.last_ref(), b).map_err(|e| format!("Chain::last_ref: {}", e))
        }
        (Sink::Ref(r), SM::Wrap(m)) => check_struct(&*r.0, m),
        (Sink::Dyn(d), SM::Wrap(m)) => {
            if d.remaining_mut() != m.rem() {
                return Err(format!("Box<dyn BufMut>::remaining_mut() = {}, want {}", d.remaining_mut(), m.rem()));
            }
            Ok(())
        }
        _ => Err("model/tree shape mismatch (harness bug)".into()),
    }
}

/// Take Limit / Chain apart with `into_inner()` and compare every piece with the model.
fn dismantle(t: Sink, m: &SM) -> Result<(), String> {
    match (t, m) {
        (Sink::Limit(l), SM::Limit(mi, lim)) => {
            let have = Limit::limit(&l);
            if have != *lim {
                return Err(format!("Limit::limit() = {}, want {}", have, lim));
            }
            let inner: Box<Sink> = l.into_inner();
            dismantle(*inner, mi).map_err(|e| format!("Limit::into_inner: {}", e))
        }
        (Sink::Chain(c), SM::Chain(a, b)) => {
            let (x, y): (Box<Sink>, Box<Sink>) = c.into_inner();
            dismantle(*x, a).map_err(|e| format!("Chain::into_inner().0: {}", e))?;
            dismantle(*y, b).map_err(|e| format!("Chain::into_inner().1: {}", e))
        }
        (other, m) => check_struct(&other, m),
    }
}

/// Write one byte into the innermost target that still has room, through the mutable accessors only
/// (the adapters' own counters must not move). Returns false if nothing could be written.
fn poke(t: &mut Sink, m: &mut SM) -> bool {
    match (t, m) {
        (Sink::Limit(l), SM::Limit(mi, _)) => poke(l.get_mut(), mi),
        (Sink::Chain(c), SM::Chain(a, b)) => {
            if a.rem() > 0 {
                poke(c.first_mut(), a)
            } else {
                poke(c.last_mut(), b)
            }
        }
        (Sink::Ref(r), SM::Wrap(mi)) => poke(&mut *r.0, mi),
        (Sink::Dyn(_), _) => false,
        (leaf, mm) => {
            if mm.rem() == 0 || !matches!(mm, SM::Grow(..) | SM::Fixed(..)) {
                return false;
            }
            leaf.put_u8(0x9d);
            mm.write(&[0x9d]);
            true
        }
    }
}

pub struct Fail {
    pub property: &'static str,
    pub case: String,
    pub msg: String,
}
fn f11(case: &str, msg: String) -> Fail {
    Fail { property: "C11", case: case.into(), msg }
}
fn f12(case: &str, msg: String) -> Fail {
    Fail { property: "C12", case: case.into(), msg }
}

fn observe(t: &mut Sink, m: &SM) -> Result<(), Fail> {
    let rm = t.remaining_mut();
    if rm != m.rem() {
        return Err(f11("remaining_mut", format!("remaining_mut() = {}, want {}", rm, m.rem())));
    }
    if t.has_remaining_mut() != (m.rem() > 0) {
        return Err(f11("has_remaining_mut", format!("has_remaining_mut() = {} with remaining_mut {}", t.has_remaining_mut(), m.rem())));
    }
    check_struct(t, m).map_err(|e| if e.contains("limit") || e.contains("Chain::") { f12("structure", e) } else { f11("contents", e) })?;
    check_arena(m).map_err(|e| f11("arena", e))?;
    let cl = t.chunk_mut().len();
    let rm2 = t.remaining_mut();
    if cl > rm2 {
        return Err(f11("chunk_mut-long", format!("chunk_mut().len() = {} exceeds remaining_mut() = {}", cl, rm2)));
    }
    if cl == 0 && rm2 != 0 {
        return Err(f11("chunk_mut-empty", format!("chunk_mut() is empty although remaining_mut() = {}", rm2)));
    }
    // chunk_mut may grow a Vec/BytesMut but must not change contents or limits
    check_struct(t, m).map_err(|e| f11("chunk_mut-sideeffect", e))?;
    Ok(())
}

#[derive(Clone, Debug, PartialEq, Eq, Hash)]
pub enum WOp {
    /// index into PUTTERS, value bytes (big-endian image of the value, `size` long)
    Fixed(usize, Vec<u8>),
    /// index into VPUTTERS, nbytes, 8-byte big-endian image of the value
    Var(usize, usize, Vec<u8>),
    Slice(usize),
    Bytes(u8, usize),
    /// put(Buf): source shape index, length
    Buf(usize, usize),
    /// io::Write::write through a Writer wrapped around the root (C12)
    WriterWrite(usize),
    /// io::Write::write_vectored with two slices of these sizes (any prefix of the concatenation of at least the first
    /// non-empty slice's share of the room is a correct answer)
    WriterWriteV(usize, usize),
    /// io::Write::write_all through Writer: Ok iff everything fits; otherwise WriteZero after min(available, requested) bytes went through
    WriterWriteAll(usize),
    /// root must be a Limit
    SetLimit(usize),
    /// the raw BufMut protocol in contract: chunk_mut(), fill min(k, chunk) bytes through the safe
    /// UninitSlice API (write_byte / copy_from_slice / sub-range indexing), advance_mut
    ChunkWrite(usize),
    /// out-of-range use of the safe UninitSlice API on chunk_mut(): must panic and write nothing
    UninitMisuse(u8),
    /// put(Buf) with a source that under-reports remaining() (claims k, hands out a 16-byte chunk): contents are
    /// unspecified afterwards, but no byte outside the target's writable region may be modified
    BufUnder(usize),
    /// take the adapters apart with into_inner() (recursively) and compare every piece with the model
    Dismantle,
    /// write one byte straight into the innermost target through get_mut() / first_mut() / last_mut()
    PokeInner,
}

fn src_shape(idx: usize, d: &[u8]) -> Spec {
    let n = d.len();
    match idx {
        0 => Spec::Slice(d.to_vec()),
        1 => Spec::Chain(Box::new(Spec::Slice(d[..n / 2].to_vec())), Box::new(Spec::Slice(d[n / 2..].to_vec()))),
        2 => Spec::Frag(d.iter().map(|&x| vec![x]).collect()),
        3 => Spec::Bytes(4, d.to_vec()),
        4 => {
            let mut e = d.to_vec();
            e.extend_from_slice(&[0x77, 0x78]);
            Spec::Take(Box::new(Spec::Deque(e.len(), e.len() / 2 + 1, e)), n)
        }
        _ => Spec::BytesMut(2, d.to_vec()),
    }
}
const N_SRC_SHAPES: usize = 6;

fn payload(k: usize, seed: u8) -> Vec<u8> {
    (0..k).map(|i| seed.wrapping_add(i as u8).wrapping_mul(3) | 1).collect()
}

fn encode(img_be: &[u8], order: u8) -> Vec<u8> {
    let le = order == 1 || (order == 2 && cfg!(target_endian = "little"));
    let mut v = img_be.to_vec();
    if le {
        v.reverse();
    }
    v
}
fn be_to_u128(b: &[u8]) -> u128 {
    let mut v = 0u128;
    for &x in b {
        v = (v << 8) | x as u128;
    }
    v
}

#[derive(Default)]
pub struct Stats {
    pub execs: u64,
    pub steps: u64,
    pub expected_panics: u64,
    pub straddles: u64,
    pub readbacks: u64,
}

/// Apply one write; Ok(true) to continue, Ok(false) if terminal (expected panic).
fn apply(t: &mut Sink, m: &mut SM, op: &WOp, seq_no: usize, stats: &mut Stats) -> Result<bool, Fail> {
    stats.steps += 1;
    // expected bytes of this write
    let (name, bytes): (String, Vec<u8>) = match op {
        WOp::Fixed(pi, img) => {
            let p = &PUTTERS[*pi];
            (p.name.to_string(), encode(img, p.order))
        }
        WOp::Var(pi, nb, img8) => {
            let p = &VPUTTERS[*pi];
            if *nb > 8 {
                let v = be_to_u128(img8);
                let r = catch_unwind(AssertUnwindSafe(|| (p.put)(t, v, *nb)));
                stats.expected_panics += 1;
                if r.is_ok() {
                    return Err(f11(&format!("{}:nbytes>8", p.name), format!("{}(_, {}) did not panic", p.name, nb)));
                }
                return Ok(false);
            }
            (format!("{}(nbytes={})", p.name, nb), encode(&img8[8 - nb..], p.order))
        }
        WOp::Slice(k) => ("put_slice".into(), payload(*k, 0x21 + seq_no as u8 * 16)),
        WOp::Bytes(v, k) => ("put_bytes".into(), if *k > 4096 { vec![] } else { vec![*v; *k] }),
        WOp::BufUnder(_) => ("put(under-reporting Buf)".into(), vec![]),
        WOp::Dismantle | WOp::PokeInner => return Ok(false),
        WOp::Buf(_, k) => ("put(Buf)".into(), payload(*k, 0x41 + seq_no as u8 * 16)),
        WOp::WriterWrite(k) => ("Writer::write".into(), payload(*k, 0x61 + seq_no as u8 * 16)),
        WOp::WriterWriteV(a, b) => ("Writer::write_vectored".into(), payload(*a + *b, 0x61 + seq_no as u8 * 16)),
        WOp::WriterWriteAll(k) => ("Writer::write_all".into(), payload(*k, 0x61 + seq_no as u8 * 16)),
        WOp::ChunkWrite(k) => ("chunk_mut+advance_mut".into(), payload((*k).max(1), 0x81 + seq_no as u8 * 16)),
        WOp::UninitMisuse(_) => ("UninitSlice misuse".into(), vec![]),
        WOp::SetLimit(l) => {
            if let (Sink::Limit(lt), SM::Limit(_, ml)) = (&mut *t, &mut *m) {
                lt.set_limit(*l);
                *ml = *l;
            }
            return Ok(true);
        }
    };
    if let WOp::ChunkWrite(k) = op {
        let rem0 = m.rem();
        let r = catch_unwind(AssertUnwindSafe(|| {
            let c = t.chunk_mut();
            let cl = c.len();
            let n = (*k).min(cl);
            // every Index impl of UninitSlice (RangeTo, Range, RangeFrom, RangeFull, RangeInclusive, RangeToInclusive)
            match (seq_no + *k) % 6 {
                0 => {
                    for i in 0..n {
                        c.write_byte(i, bytes[i]);
                    }
                }
                1 => c[..n].copy_from_slice(&bytes[..n]),
                2 => {
                    // two halves through sub-range indexing
                    let h = n / 2;
                    c[..h].copy_from_slice(&bytes[..h]);
                    c[h..n].copy_from_slice(&bytes[h..n]);
                }
                3 => {
                    let h = n / 2;
                    c[..][..h].copy_from_slice(&bytes[..h]);
                    c[h..][..n - h].copy_from_slice(&bytes[h..n]);
                }
                4 => {
                    if n > 0 {
                        c[0..=n - 1].copy_from_slice(&bytes[..n]);
                    }
                }
                _ => {
                    if n > 0 {
                        let h = n / 2;
                        c[..=n - 1][h..].copy_from_slice(&bytes[h..n]);
                        c[..=n - 1][..h].copy_from_slice(&bytes[..h]);
                    }
                }
            }
            unsafe { t.advance_mut(n) };
            (cl, n)
        }));
        return match r {
            Ok((cl, n)) => {
                if cl > rem0 {
                    return Err(f11("chunk_mut-longer", format!("chunk_mut().len() = {} but remaining_mut() = {}", cl, rem0)));
                }
                if cl == 0 && rem0 > 0 {
                    return Err(f11("chunk_mut-empty", format!("chunk_mut() is empty but remaining_mut() = {}", rem0)));
                }
                m.write(&bytes[..n]);
                Ok(true)
            }
            Err(_) => Err(f11("chunk-write:panic", format!("writing {} bytes through chunk_mut() + advance_mut panicked (remaining_mut() = {})", k, rem0))),
        };
    }
    if let WOp::UninitMisuse(mode) = op {
        stats.expected_panics += 1;
        let r = catch_unwind(AssertUnwindSafe(|| {
            let c = t.chunk_mut();
            let cl = c.len();
            match mode {
                0 => c.write_byte(cl, 0x99),
                1 => {
                    let src = vec![0x99u8; cl + 1];
                    c.copy_from_slice(&src)
                }
                2 => {
                    let sub = &mut c[..cl + 1];
                    sub.write_byte(cl, 0x99)
                }
                _ => c[cl..].copy_from_slice(&[0x99]),
            }
        }));
        if r.is_ok() {
            return Err(f11("uninit-slice:nopanic", format!("out-of-range use of UninitSlice (mode {}) on chunk_mut() did not panic", mode)));
        }
        let mut rs = vec![];
        regions(m, &mut rs);
        let a = arena();
        for i in 0..ARENA {
            let inside = rs.iter().any(|(o, c, _)| i >= *o && i < *o + *c);
            if !inside && a[i] != GUARD {
                return Err(f11("uninit-slice:outside", format!("out-of-range use of UninitSlice (mode {}) modified a byte outside every writable region (arena offset {})", mode, i)));
            }
        }
        return Ok(false);
    }
    if let WOp::BufUnder(claim) = op {
        struct Under {
            data: [u8; 16],
            pos: usize,
            claim: usize,
            fuel: std::cell::Cell<u32>,
        }
        impl Buf for Under {
            fn remaining(&self) -> usize {
                let f = self.fuel.get();
                self.fuel.set(f + 1);
                if f > 200 {
                    panic!("under-reporting source: out of fuel");
                }
                (16 - self.pos).min(self.claim)
            }
            fn chunk(&self) -> &[u8] {
                &self.data[self.pos..]
            }
            fn advance(&mut self, cnt: usize) {
                self.pos = (self.pos + cnt).min(16);
            }
        }
        let mut src = Under { data: [0x6b; 16], pos: 0, claim: *claim, fuel: std::cell::Cell::new(0) };
        let _ = catch_unwind(AssertUnwindSafe(|| t.put(&mut src)));
        let mut rs = vec![];
        regions(m, &mut rs);
        let a = arena();
        for i in 0..ARENA {
            let inside = rs.iter().any(|(o, c, _)| i >= *o && i < *o + *c);
            if !inside && a[i] != GUARD {
                return Err(f11("put-under:outside", format!("put(Buf) with a source that claims {} bytes but hands out a 16-byte chunk modified a byte outside every writable region (arena offset {})", claim, i)));
            }
        }
        if let Some(v) = oracle::check_canaries() {
            return Err(f11("put-under:heap", format!("put(Buf) with a source that claims {} bytes but hands out a 16-byte chunk: {}", claim, v)));
        }
        return Ok(false);
    }
    let huge = matches!(op, WOp::Bytes(_, k) if *k > 4096);
    if let WOp::Bytes(_, k) = op {
        if huge && *k <= m.rem() {
            // a growable target that really has room for this count: not executed (it would start filling memory)
            return Ok(false);
        }
    }
    let rem = m.rem();
    let fits = !huge && bytes.len() <= rem;
    if let SM::Chain(a, _) = m {
        if a.rem() > 0 && a.rem() < bytes.len() && fits {
            stats.straddles += 1;
        }
    }
    let r = match op {
        WOp::Fixed(pi, img) => {
            let v = be_to_u128(img);
            let p = &PUTTERS[*pi];
            // signed types take the sign-extended value; the putter closure truncates with `as`
            catch_unwind(AssertUnwindSafe(|| (p.put)(t, v)))
        }
        WOp::Var(pi, nb, img8) => {
            let v = be_to_u128(img8);
            let p = &VPUTTERS[*pi];
            catch_unwind(AssertUnwindSafe(|| (p.put)(t, v, *nb)))
        }
        WOp::Slice(_) => catch_unwind(AssertUnwindSafe(|| t.put_slice(&bytes))),
        WOp::Bytes(v, k) => catch_unwind(AssertUnwindSafe(|| t.put_bytes(*v, *k))),
        WOp::Buf(shape, _) => {
            let spec = src_shape(*shape, &bytes);
            let (mut src, _) = cursor::build(&spec);
            let r = catch_unwind(AssertUnwindSafe(|| t.put(&mut src)));
            if r.is_ok() && fits && src.remaining() != 0 {
                return Err(f11("put(Buf):source", format!("put(Buf) returned but the source still has {} bytes", src.remaining())));
            }
            r
        }
        WOp::WriterWrite(_) => {
            // Writer<&mut Sink>: transfers min(available, requested), never fails
            let want = bytes.len().min(rem);
            let res = catch_unwind(AssertUnwindSafe(|| {
                let mut w: Writer<&mut Sink> = (&mut *t).writer();
                let n = w.write(&bytes);
                let fl = w.flush();
                (n, fl.is_ok())
            }));
            match res {
                Ok((Ok(n), true)) if n == want => {
                    m.write(&bytes[..n]);
                    return Ok(true);
                }
                Ok((other, fl)) => {
                    return Err(f12("writer-count", format!("Writer::write({} bytes) with room for {} returned {:?} (flush ok: {}), want Ok({})", bytes.len(), rem, other.map_err(|e| e.to_string()), fl, want)))
                }
                Err(_) => return Err(f12("writer-panic", format!("Writer::write({} bytes) with room for {} panicked", bytes.len(), rem))),
            }
        }
        WOp::WriterWriteAll(_) => {
            let want = bytes.len().min(rem);
            let res = catch_unwind(AssertUnwindSafe(|| {
                let mut w: Writer<&mut Sink> = (&mut *t).writer();
                std::io::Write::write_all(&mut w, &bytes).map_err(|e| e.kind())
            }));
            return match res {
                Ok(r) => {
                    let ok_expected = bytes.len() <= rem;
                    if r.is_ok() != ok_expected || (!ok_expected && r != Err(std::io::ErrorKind::WriteZero)) {
                        return Err(f12("writer-write_all-result", format!("Writer::write_all({} bytes) with room for {} returned {:?}", bytes.len(), rem, r)));
                    }
                    // what went through is checked by the observation that follows (contents, remaining_mut, structure)
                    m.write(&bytes[..want]);
                    Ok(true)
                }
                Err(_) => Err(f12("writer-write_all-panic", format!("Writer::write_all({} bytes) with room for {} panicked", bytes.len(), rem))),
            };
        }
        WOp::WriterWriteV(a, _b) => {
            let (x, y) = bytes.split_at(*a);
            let first_nonempty = if !x.is_empty() { x.len() } else { y.len() };
            let res = catch_unwind(AssertUnwindSafe(|| {
                let mut w: Writer<&mut Sink> = (&mut *t).writer();
                let n = std::io::Write::write_vectored(&mut w, &[std::io::IoSlice::new(x), std::io::IoSlice::new(y)]);
                let fl = w.flush();
                (n, fl.is_ok())
            }));
            match res {
                Ok((Ok(n), true)) if n <= bytes.len().min(rem) && n >= first_nonempty.min(rem) => {
                    m.write(&bytes[..n]);
                    return Ok(true);
                }
                Ok((other, fl)) => {
                    return Err(f12("writer-vectored-count", format!("Writer::write_vectored([{} bytes, {} bytes]) with room for {} returned {:?} (flush ok: {}), want Ok(n) with {} <= n <= {}", x.len(), y.len(), rem, other.map_err(|e| e.to_string()), fl, first_nonempty.min(rem), bytes.len().min(rem))))
                }
                Err(_) => return Err(f12("writer-vectored-panic", format!("Writer::write_vectored([{} bytes, {} bytes]) with room for {} panicked", x.len(), y.len(), rem))),
            }
        }
        WOp::SetLimit(_) | WOp::ChunkWrite(_) | WOp::UninitMisuse(_) | WOp::BufUnder(_) | WOp::Dismantle | WOp::PokeInner => unreachable!(),
    };
    if !fits {
        stats.expected_panics += 1;
        if r.is_ok() {
            return Err(f11(&format!("{}:nofit-nopanic", name.split('(').next().unwrap()), format!("{} of {} bytes into a target with remaining_mut() = {} did not panic", name, bytes.len(), rem)));
        }
        // nothing outside the writable regions may have changed; regions themselves are unspecified after a panic
        let mut rs = vec![];
        regions(m, &mut rs);
        let a = arena();
        for i in 0..ARENA {
            let inside = rs.iter().any(|(o, c, _)| i >= *o && i < *o + *c);
            if !inside && a[i] != GUARD {
                return Err(f11("nofit-outside", format!("{} that does not fit modified a byte outside every writable region (arena offset {})", name, i)));
            }
        }
        // the rejected write appended nothing: the write cursor is where it was (every provided method checks the room before
        // its first byte; "appends exactly the specified encoding ... and nothing else")
        if !huge {
            match catch_unwind(AssertUnwindSafe(|| t.remaining_mut())) {
                Ok(now) if now == rem => {}
                Ok(now) => return Err(f11("nofit-partial", format!("{} of {} bytes was rejected (panic) but moved the write cursor: remaining_mut() went from {} to {}", name, bytes.len(), rem, now))),
                Err(_) => return Err(f11("nofit-partial", format!("remaining_mut() panicked after the rejected {}", name))),
            }
        }
        return Ok(false);
    }
    if r.is_err() {
        // a panic that follows an out-of-bounds write is reported as the out-of-bounds write
        let mut rs = vec![];
        regions(m, &mut rs);
        let a = arena();
        for i in 0..ARENA {
            let inside = rs.iter().any(|(o, c, _)| i >= *o && i < *o + *c);
            if !inside && a[i] != GUARD {
                return Err(f11("panic-after-write-outside", format!("{} of {} bytes (remaining_mut() = {}) modified a byte outside every writable region (arena offset {}) and then panicked", name, bytes.len(), rem, i)));
            }
        }
        if let Some(v) = oracle::check_canaries() {
            return Err(f11("panic-after-heap-overflow", format!("{} of {} bytes (remaining_mut() = {}) panicked after: {}", name, bytes.len(), rem, v)));
        }
        return Err(f11(&format!("{}:panic", name.split('(').next().unwrap()), format!("{} of {} bytes panicked although remaining_mut() = {}", name, bytes.len(), rem)));
    }
    let before_fixed = if m.fixed_only() { Some(m.rem()) } else { None };
    m.write(&bytes);
    if let Some(b) = before_fixed {
        let now = t.remaining_mut();
        if b - now != bytes.len() {
            return Err(f11("remaining_mut-decrease", format!("{} wrote {} bytes but remaining_mut() went from {} to {}", name, bytes.len(), b, now)));
        }
    }
    // read back with the matching getter
    match op {
        WOp::Fixed(pi, img) => {
            let p = &PUTTERS[*pi];
            if let Some(g) = cursor::GETTERS.iter().find(|g| g.name == p.getter) {
                let (mut rd, _) = cursor::build(&Spec::Slice(bytes.clone()));
                let got = (g.get)(&mut rd);
                let mut want = be_to_u128(img);
                if p.kind == 1 && p.size < 16 && img[0] & 0x80 != 0 {
                    want |= u128::MAX << (8 * p.size);
                }
                stats.readbacks += 1;
                if got != want {
                    return Err(f11(&format!("{}:readback", p.name), format!("{} then {} returned {:#x}, want {:#x}", p.name, p.getter, got, want)));
                }
            }
        }
        WOp::Var(pi, nb, img8) => {
            let p = &VPUTTERS[*pi];
            if let Some(g) = cursor::VGETTERS.iter().find(|g| g.name == p.getter) {
                let (mut rd, _) = cursor::build(&Spec::Slice(bytes.clone()));
                let got = (g.get)(&mut rd, *nb);
                let low = &img8[8 - nb..];
                let mut want = be_to_u128(low);
                if p.signed && *nb > 0 && low[0] & 0x80 != 0 {
                    want |= u128::MAX << (8 * nb);
                }
                stats.readbacks += 1;
                if got != want {
                    return Err(f11(&format!("{}:readback", p.name), format!("{}(nbytes={}) then {} returned {:#x}, want {:#x}", p.name, nb, p.getter, got, want)));
                }
            }
        }
        _ => {}
    }
    Ok(true)
}

pub fn run_sequence(spec: &SSpec, seq: &[WOp], parity_odd: bool, stats: &mut Stats, tracked: bool) -> Result<Option<(usize, usize, Option<usize>, usize)>, Fail> {
    oracle::sys::set_crash_note(&format!("sink target={:?} writes={:?}", spec, seq));
    if tracked {
        oracle::begin_execution(parity_odd);
    }
    stats.execs += 1;
    *arena() = [GUARD; ARENA];
    let res = oracle::subject(|| catch_unwind(AssertUnwindSafe(|| -> Result<Option<(usize, usize, Option<usize>, usize)>, Fail> {
        let mut b = Builder { next: 0 };
        let (mut t, mut m) = b.build(spec);
        observe(&mut t, &m)?;
        for (i, op) in seq.iter().enumerate() {
            if let WOp::Dismantle = op {
                dismantle(t, &m).map_err(|e| f12("into_inner", e))?;
                return Ok(None);
            }
            if let WOp::PokeInner = op {
                if poke(&mut t, &mut m) {
                    observe(&mut t, &m).map_err(|mut f| {
                        f.msg = format!("after writing one byte into the innermost target through get_mut()/first_mut()/last_mut(): {}", f.msg);
                        f
                    })?;
                }
                return Ok(None);
            }
            let cont = apply(&mut t, &mut m, op, i, stats)?;
            if !cont {
                return Ok(None);
            }
            observe(&mut t, &m)?;
        }
        let first = match &m {
            SM::Chain(a, _) => a.rem(),
            SM::Limit(i, l) => i.rem().min(*l),
            other => other.rem(),
        };
        let lim = if let SM::Limit(_, l) = &m { Some(*l) } else { None };
        // what the target hands out as its next chunk right now (a write one byte longer has to cross into a second chunk)
        let chunk = if m.rem() > 0 { t.chunk_mut().len() } else { 0 };
        Ok(Some((m.rem(), first, lim, chunk)))
    })));
    let res = match res {
        Ok(r) => r,
        Err(_) => Err(f11("unexpected-panic", "an observation (remaining_mut/chunk_mut/get_ref) or construction/drop of the target panicked".into())),
    };
    if !tracked {
        return res;
    }
    let end = oracle::end_execution();
    let res = res?;
    if let Some(v) = oracle::take_violation() {
        return Err(Fail { property: "C02", case: "memory".into(), msg: v });
    }
    if let Some(c) = end.corrupt {
        return Err(Fail { property: "C02", case: "memory".into(), msg: c });
    }
    if !end.leaked.is_empty() {
        return Err(Fail { property: "C03", case: "leak".into(), msg: format!("blocks leaked: {:?}", end.leaked) });
    }
    Ok(res)
}

// ------------------------------------------------------------------ enumeration

fn value_images(size: usize) -> Vec<Vec<u8>> {
    let edge = [0x00u8, 0x01, 0x7f, 0x80, 0xff];
    if size == 1 {
        return vec![vec![0], vec![1], vec![0x7f], vec![0x80], vec![0xff], vec![0x5a]];
    }
    let mut v = vec![];
    for &a in &edge {
        for &b in &edge {
            let mut p: Vec<u8> = (0..size).map(|i| 0x11u8.wrapping_mul(i as u8 + 1) ^ 0x20).collect();
            p[0] = a;
            p[size - 1] = b;
            v.push(p);
        }
    }
    v
}

fn sized_ops(rem: usize, first: usize, chunk: usize, with_writer: bool, lim: Option<usize>, level: usize) -> Vec<WOp> {
    let cap = |x: usize| x.min(24);
    let mut ks = vec![0usize, 1, 2, 3, cap(first), cap(first) + 1, cap(rem), cap(rem) + 1, cap(first).saturating_sub(1)];
    if chunk < 24 {
        ks.push(chunk + 1);
    }
    ks.sort();
    ks.dedup();
    let mut v = vec![];
    if level == 0 {
        // counts around a 256-byte block, where the target has the room (growable targets)
        for k in [255usize, 256, 257, 512] {
            if k <= rem {
                v.push(WOp::Bytes(0xB7, k));
                if k != 257 {
                    v.push(WOp::Slice(k));
                }
            }
        }
    }
    for &k in &ks {
        v.push(WOp::Slice(k));
        v.push(WOp::Bytes(0xB7, k));
        for s in 0..N_SRC_SHAPES {
            if level > 0 && s != 1 {
                continue; // deeper levels: one multi-chunk source shape
            }
            if k >= 2 || s == 0 || level > 0 {
                v.push(WOp::Buf(s, k));
            }
        }
        if with_writer {
            v.push(WOp::WriterWrite(k));
        }
    }
    if with_writer {
        for k in [1usize, cap(rem), cap(rem) + 1, cap(rem) + 2] {
            let op = WOp::WriterWriteAll(k);
            if !v.contains(&op) {
                v.push(op);
            }
        }
        for (a, b) in [(1usize, 2usize), (0, 3), (cap(rem), 1), (cap(rem).saturating_sub(1), 2), (cap(first), 2), (2, 0)] {
            let op = WOp::WriterWriteV(a, b);
            if !v.contains(&op) {
                v.push(op);
            }
        }
    }
    if rem > 0 {
        for k in [1usize, cap(first), cap(first) + 1] {
            let op = WOp::ChunkWrite(k);
            if !v.contains(&op) {
                v.push(op);
            }
        }
        for mode in 0..4u8 {
            v.push(WOp::UninitMisuse(mode));
        }
    }
    // counts that cannot fit anywhere: must panic, nothing outside the target may change
    // (only counts that exceed remaining_mut(): a growable target whose remaining_mut() is usize::MAX may
    // legitimately start filling memory)
    for c in [usize::MAX, usize::MAX - 7, (isize::MAX as usize) + 1] {
        if c > rem {
            v.push(WOp::Bytes(0xB7, c));
        }
    }
    for claim in [0usize, 1, 4, 9] {
        v.push(WOp::BufUnder(claim));
    }
    v.push(WOp::Dismantle);
    v.push(WOp::PokeInner);
    if let Some(l) = lim {
        let mut ls = vec![0usize, 1, l.saturating_sub(1), l.saturating_add(1), usize::MAX];
        ls.sort();
        ls.dedup();
        for x in ls {
            if x != l {
                v.push(WOp::SetLimit(x));
            }
        }
    }
    v
}

fn typed_ops(rich: bool) -> Vec<WOp> {
    let mut v = vec![];
    for (i, p) in PUTTERS.iter().enumerate() {
        let imgs = value_images(p.size);
        for (j, img) in imgs.iter().enumerate() {
            if rich || imgs.len() <= 6 || j == 16 || j == 14 || j == 0 || j == 24 {
                v.push(WOp::Fixed(i, img.clone()));
            }
        }
    }
    for (i, _p) in VPUTTERS.iter().enumerate() {
        for nb in 0..=9usize {
            for (j, img) in value_images(8).iter().enumerate() {
                if rich || j == 16 || j == 14 {
                    v.push(WOp::Var(i, nb, img.clone()));
                }
            }
        }
    }
    v
}

fn wrap1(s: &SSpec, fixed_cap: Option<usize>, out: &mut Vec<SSpec>) {
    out.push(s.clone());
    out.push(SSpec::Ref(Box::new(s.clone())));
    out.push(SSpec::Dyn(Box::new(s.clone())));
    let c = fixed_cap.unwrap_or(5);
    let mut ls = vec![0usize, 1, c.saturating_sub(1), c, c + 1, usize::MAX];
    ls.sort();
    ls.dedup();
    for l in ls {
        out.push(SSpec::Limit(Box::new(s.clone()), l));
    }
}

pub fn targets(rich: bool) -> Vec<SSpec> {
    let mut out = vec![];
    let fixed_sizes: Vec<usize> = if rich { (0..=10).chain([16, 17, 20]).collect() } else { vec![0, 1, 2, 3, 4, 7, 8, 9, 16, 17] };
    for &c in &fixed_sizes {
        wrap1(&SSpec::Slice(c), Some(c), &mut out);
        wrap1(&SSpec::Uninit(c), Some(c), &mut out);
    }
    for init in [0usize, 2] {
        for spare in [0usize, 1, 3, 20] {
            wrap1(&SSpec::Vec(init, spare), None, &mut out);
            for rep in [0u8, 1, 2, 3, 4] {
                wrap1(&SSpec::BytesMut(rep, init, spare), None, &mut out);
            }
        }
    }
    // chains: boundary at every position
    let firsts: Vec<usize> = if rich { (0..=17).collect() } else { (0..=9).chain([16]).collect() };
    for &c1 in &firsts {
        for second in [SSpec::Slice(0), SSpec::Slice(1), SSpec::Slice(8), SSpec::Slice(16), SSpec::Uninit(20), SSpec::Vec(0, 3), SSpec::BytesMut(2, 0, 1)] {
            for first in [SSpec::Slice(c1), SSpec::Uninit(c1)] {
                let c = SSpec::Chain(Box::new(first.clone()), Box::new(second.clone()));
                out.push(c.clone());
                if rich || c1 % 3 == 1 {
                    out.push(SSpec::Ref(Box::new(c.clone())));
                    out.push(SSpec::Limit(Box::new(c.clone()), c1 + 2));
                    out.push(SSpec::Limit(Box::new(c.clone()), usize::MAX));
                    out.push(SSpec::Chain(Box::new(SSpec::Limit(Box::new(first.clone()), c1.saturating_sub(1))), Box::new(second.clone())));
                    out.push(SSpec::Chain(Box::new(SSpec::Dyn(Box::new(first.clone()))), Box::new(SSpec::Ref(Box::new(second.clone())))));
                }
            }
        }
        // three-way chains
        for c2 in [0usize, 1, 3] {
            let a = SSpec::Chain(Box::new(SSpec::Chain(Box::new(SSpec::Slice(c1)), Box::new(SSpec::Slice(c2)))), Box::new(SSpec::Slice(20)));
            let b = SSpec::Chain(Box::new(SSpec::Slice(c1)), Box::new(SSpec::Chain(Box::new(SSpec::Uninit(c2)), Box::new(SSpec::Slice(20)))));
            out.push(a);
            out.push(b);
        }
    }
    // a Limit whose limit exceeds the room of its fixed inner buffer, as the first half of a chain (the chain has to move on
    // to its second half when the inner buffer is full, whatever the limit says)
    for c1 in [0usize, 1, 2] {
        for extra in [1usize, 3, usize::MAX / 2] {
            for second in [SSpec::Slice(8), SSpec::Vec(0, 3)] {
                out.push(SSpec::Chain(Box::new(SSpec::Limit(Box::new(SSpec::Slice(c1)), c1.saturating_add(extra))), Box::new(second.clone())));
                out.push(SSpec::Chain(Box::new(SSpec::Limit(Box::new(SSpec::Uninit(c1)), c1.saturating_add(extra))), Box::new(second.clone())));
            }
        }
    }
    // Limit over growable buffers with one spare byte (a write of two bytes crosses into a second chunk of the inner buffer)
    for l in [2usize, 5] {
        out.push(SSpec::Limit(Box::new(SSpec::Vec(0, 1)), l));
        out.push(SSpec::Limit(Box::new(SSpec::BytesMut(0, 0, 1)), l));
        out.push(SSpec::Limit(Box::new(SSpec::Limit(Box::new(SSpec::Vec(1, 1)), l + 1)), l));
        out.push(SSpec::Limit(Box::new(SSpec::Chain(Box::new(SSpec::Slice(1)), Box::new(SSpec::Slice(8)))), l));
    }
    // growable first half: the second half must never be written
    out.push(SSpec::Chain(Box::new(SSpec::Vec(0, 2)), Box::new(SSpec::Slice(8))));
    out.push(SSpec::Chain(Box::new(SSpec::BytesMut(0, 1, 0)), Box::new(SSpec::Slice(8))));
    out.push(SSpec::Chain(Box::new(SSpec::Limit(Box::new(SSpec::Vec(0, 0)), 5)), Box::new(SSpec::Slice(8))));
    out.push(SSpec::Chain(Box::new(SSpec::Limit(Box::new(SSpec::BytesMut(2, 2, 1)), 3)), Box::new(SSpec::Uninit(9))));
    out
}

/// Adapters held *by value* with concrete inner types: provided methods that `&mut T` / `Box<T>` do not forward
/// (has_remaining_mut, ...) are only reached this way. Each case: a few writes, then contents, remaining_mut and a non-empty
/// chunk_mut while room remains.
fn by_value_cases(rep: &mut Report) -> u64 {
    let mut n = 0u64;
    let mut check = |name: &str, f: &mut dyn FnMut() -> Result<(), String>| {
        n += 1;
        oracle::sys::set_crash_note(&format!("sink by-value case {}", name));
        let r = oracle::subject(|| catch_unwind(AssertUnwindSafe(|| f())));
        let msg = match r {
            Ok(Ok(())) => return,
            Ok(Err(m)) => m,
            Err(_) => "panicked".to_string(),
        };
        rep.violate("C11", &format!("by-value:{}", name), &format!("{}: {}", name, msg), "");
        rep.violate("C12", &format!("by-value:{}", name), &format!("{}: {}", name, msg), "");
    };
    fn step<T: BufMut>(t: &mut T, want_rem: usize, what: &str) -> Result<(), String> {
        if t.remaining_mut() != want_rem {
            return Err(format!("{}: remaining_mut() = {}, want {}", what, t.remaining_mut(), want_rem));
        }
        if t.has_remaining_mut() != (want_rem > 0) {
            return Err(format!("{}: has_remaining_mut() = {} with remaining_mut() = {}", what, t.has_remaining_mut(), want_rem));
        }
        if want_rem > 0 && t.chunk_mut().len() == 0 {
            return Err(format!("{}: chunk_mut() is empty although remaining_mut() = {}", what, want_rem));
        }
        Ok(())
    }
    for limit in [2usize, 3, 9, usize::MAX] {
        check("Chain<Limit<&mut [u8]>, &mut [u8]> with a limit beyond the first buffer", &mut || {
            let (mut a, mut b) = ([0xEEu8; 1], [0xEEu8; 4]);
            {
                let lim_room = limit.min(1);
                let mut c = (&mut a[..]).limit(limit).chain_mut(&mut b[..]);
                step(&mut c, lim_room + 4, "fresh")?;
                c.put_u8(0x11);
                step(&mut c, 4, "after the first half is full")?;
                c.put_slice(&[0x12, 0x13]);
                step(&mut c, 2, "after crossing into the second half")?;
                c.put_bytes(0x14, 2);
                step(&mut c, 0, "full")?;
            }
            if a != [0x11] || b != [0x12, 0x13, 0x14, 0x14] {
                return Err(format!("buffers hold {:02x?} / {:02x?}", a, b));
            }
            Ok(())
        });
        check("Limit<Chain<&mut [u8], &mut [u8]>>", &mut || {
            if limit < 3 {
                return Ok(()); // the three bytes written below need a limit of at least 3
            }
            let (mut a, mut b) = ([0xEEu8; 1], [0xEEu8; 4]);
            let room = limit.min(5);
            {
                let mut l = (&mut a[..]).chain_mut(&mut b[..]).limit(limit);
                step(&mut l, room, "fresh")?;
                l.put_u8(0x21);
                step(&mut l, room - 1, "after one byte")?;
                l.put_u16(0x2223);
                step(&mut l, room - 3, "after crossing")?;
                if bytes::buf::Limit::limit(&l) != limit - 3 {
                    return Err(format!("limit() = {}, want {}", bytes::buf::Limit::limit(&l), limit - 3));
                }
            }
            if a != [0x21] || b[..2] != [0x22, 0x23] || b[2..] != [0xEE, 0xEE] {
                return Err(format!("buffers hold {:02x?} / {:02x?}", a, b));
            }
            Ok(())
        });
    }
    check("Chain<Chain<&mut [u8], Limit<&mut [u8]>>, Vec<u8>>", &mut || {
        let (mut a, mut b) = ([0xEEu8; 2], [0xEEu8; 4]);
        let mut v: Vec<u8> = Vec::new();
        {
            let mut c = (&mut a[..]).chain_mut((&mut b[..]).limit(1)).chain_mut(&mut v);
            c.put_u32(0x31323334);
            c.put_u8(0x35);
            if !c.has_remaining_mut() || c.chunk_mut().len() == 0 {
                return Err("no room reported although the last part is a Vec".into());
            }
        }
        if a != [0x31, 0x32] || b != [0x33, 0xEE, 0xEE, 0xEE] || v != [0x34, 0x35] {
            return Err(format!("buffers hold {:02x?} / {:02x?} / {:02x?}", a, b, v));
        }
        Ok(())
    });
    n
}

pub fn run(tier: &str, parity_odd: bool, shard: usize, nshards: usize, prop: &str, rep: &mut Report) {
    let rich = tier == "thorough";
    let depth = if rich { 3 } else { 2 };
    let specs = targets(rich);
    let typed = typed_ops(rich);
    let mut stats = Stats::default();
    let mut seqs = 0u64;
    let mut trees = 0u64;
    let mut kinds: BTreeSet<String> = BTreeSet::new();
    // warm-up
    {
        let mut ws = Stats::default();
        for spec in specs.iter().step_by((specs.len() / 100).max(1)) {
            let _ = run_sequence(spec, &[], parity_odd, &mut ws, false);
            for op in typed.iter().step_by(37) {
                let _ = run_sequence(spec, &[op.clone()], parity_odd, &mut ws, false);
            }
            for op in sized_ops(3, 1, 1, true, Some(2), 0) {
                let _ = run_sequence(spec, &[op], parity_odd, &mut ws, false);
            }
        }
    }
    for (i, spec) in specs.iter().enumerate() {
        if i % nshards != shard {
            continue;
        }
        trees += 1;
        if rep.saturated() {
            rep.exhaustive = false;
            rep.caps.push("stopped after 12 distinct violations".into());
            break;
        }
        let mut sig = format!("{:?}", spec);
        sig.retain(|c| !c.is_ascii_digit());
        kinds.insert(sig);
        let with_writer = prop == "C12";
        let mut stack: Vec<Vec<WOp>> = vec![vec![]];
        while let Some(seq) = stack.pop() {
            seqs += 1;
            match run_sequence(spec, &seq, parity_odd, &mut stats, true) {
                Ok(Some((rem, first, lim, chunk))) => {
                    if seq.len() < depth {
                        // typed table: from the initial state and (thorough) after one short positioning write
                        let after_typed = seq.iter().any(|o| matches!(o, WOp::Fixed(..) | WOp::Var(..)));
                        let typed_here = prop == "C11" && (seq.is_empty() || (rich && seq.len() == 1 && matches!(seq[0], WOp::Slice(k) if k <= 3)));
                        if typed_here {
                            for op in &typed {
                                let mut s2 = seq.clone();
                                s2.push(op.clone());
                                stack.push(s2);
                            }
                        }
                        // after a typed write: one more sized write (only if the typed write came first)
                        if !after_typed || seq.len() == 1 {
                            for op in sized_ops(rem, first, chunk, with_writer, lim, seq.len()) {
                                // C12 (write side): the Writer and Limit operations, plain writes for positioning, and put_bytes where it has to
                                // cross a chunk boundary (an adapter that keeps its own count must see every byte that went through)
                                let crossing = matches!(op, WOp::Bytes(_, k) if k <= rem && k > chunk && k <= 24);
                                if prop == "C12" && !(matches!(op, WOp::WriterWrite(_) | WOp::WriterWriteV(..) | WOp::WriterWriteAll(_) | WOp::SetLimit(_) | WOp::Slice(_)) || crossing) {
                                    continue;
                                }
                                if after_typed && !matches!(op, WOp::Slice(_)) {
                                    continue;
                                }
                                let mut s2 = seq.clone();
                                s2.push(op);
                                stack.push(s2);
                            }
                        }
                    }
                }
                Ok(None) => {}
                Err(f) => {
                    let replay = format!(
                        "{{\"engine\":\"sink\",\"spec\":{},\"ops\":{},\"parity\":{}}}",
                        oracle::report::jstr(&format!("{:?}", spec)),
                        oracle::report::jstr(&format!("{:?}", seq)),
                        oracle::report::jstr(if parity_odd { "odd" } else { "even" })
                    );
                    rep.violate(f.property, &f.case, &format!("{} | target {:?} after writes {:?}", f.msg, spec, seq), &replay);
                    // a wrong state right after an operation through Writer: the adapter did not transfer min(available, requested)
                    if f.property == "C11" && matches!(seq.last(), Some(WOp::WriterWrite(_) | WOp::WriterWriteV(..) | WOp::WriterWriteAll(_))) {
                        rep.violate("C12", &f.case, &format!("{} | target {:?} after writes {:?}", f.msg, spec, seq), &replay);
                    }
                    // a rejected write that moved an inner buffer: the adapters did not pass on "exactly the bytes that went through" (C12)
                    if f.property == "C11" && f.case.starts_with("nofit-partial") && (format!("{:?}", spec).contains("Chain(") || format!("{:?}", spec).contains("Limit(")) {
                        rep.violate("C12", &f.case, &format!("{} | target {:?} after writes {:?}", f.msg, spec, seq), &replay);
                    }
                    // a write that lands outside the target's writable region is an out-of-bounds write of the crate (C02) as well
                    if f.property != "C02" && (f.case.contains("outside") || f.case.contains("heap") || f.case.contains("guard")) {
                        rep.violate("C02", &f.case, &format!("{} | target {:?} after writes {:?}", f.msg, spec, seq), &replay);
                    }
                }
            }
            if seqs % 150_000 == 1 {
                rep.sample(format!("target {:?} writes {:?}", spec, seq));
            }
        }
    }
    if shard == 0 {
        oracle::begin_execution(parity_odd);
        let nb = by_value_cases(rep);
        let _ = oracle::end_execution();
        let _ = oracle::take_violation();
        rep.extra_num("by_value_adapter_cases", nb);
    }
    rep.states = seqs;
    rep.transitions = stats.steps;
    rep.traces = stats.execs;
    rep.evaluations = stats.execs;
    rep.distinct_nontrivial = trees;
    rep.extra_num("targets", trees);
    rep.extra_num("target_kinds", kinds.len() as u64);
    rep.extra_num("write_sequences", seqs);
    rep.extra_num("typed_put_cells", typed.len() as u64);
    rep.extra_num("expected_panics_checked", stats.expected_panics);
    rep.extra_num("writes_straddling_a_chain_boundary", stats.straddles);
    rep.extra_num("readbacks", stats.readbacks);
    rep.extra_num("bufmut_methods_forwarded", N_BUFMUT_METHODS_FORWARDED as u64);
    let _ = (UninitSlice::len as fn(&UninitSlice) -> usize, Tree::remaining as fn(&Tree) -> usize);
}
