//! bufmc: engines B (cursor model checker: C09-C12) and D (tables: C14, C15).
use oracle::report::Report;

mod cursor;
mod liar;
mod reps;
mod sink;
mod table;
mod typed;

#[global_allocator]
static ALLOC: oracle::Oracle = oracle::Oracle;

fn arg(name: &str, default: &str) -> String {
    let a: Vec<String> = std::env::args().collect();
    for i in 0..a.len() {
        if a[i] == name && i + 1 < a.len() {
            return a[i + 1].clone();
        }
    }
    default.to_string()
}

fn main() {
    oracle::sys::install_crash_handlers();
    oracle::quiet_panics();
    oracle::run_engine(real_main);
}

fn real_main() {
    let engine = std::env::args().nth(1).unwrap_or_default();
    let tier = arg("--tier", "quick");
    let parity = arg("--parity", "even");
    let odd = parity == "odd";
    let profile = if cfg!(debug_assertions) { "dbg" } else { "rel" };
    let config = format!("{}/{}/{}", profile, parity, if cfg!(feature = "serde") { "serde" } else { "std" });
    let t0 = std::time::Instant::now();
    if matches!(engine.as_str(), "c09" | "c12r" | "c11" | "c12w" | "c10" | "c17") {
        // every execution of these engines is a handful of calls on a buffer of a few bytes: 30 s of CPU time inside one of
        // them means the call does not return (reported like a crash, with the case in the note)
        oracle::sys::arm_hang_watchdog(10, 3);
    }
    let mut rep = match engine.as_str() {
        "c14" => {
            let shard: usize = arg("--shard", "0").parse().unwrap();
            let nshards: usize = arg("--nshards", "1").parse().unwrap();
            let mut r = Report::new("table", "C14", &config);
            table::run_c14(&tier, odd, shard, nshards, &mut r);
            r
        }
        "c15" => {
            let shard: usize = arg("--shard", "0").parse().unwrap();
            let nshards: usize = arg("--nshards", "1").parse().unwrap();
            let mut r = Report::new("table", "C15", &config);
            // on a thread with a small stack: formatting must not need stack in proportion to the data (a recursive
            // formatter overflows here with the 16 KiB all-escapes string; the crash protocol reports it)
            std::thread::scope(|s| {
                let h = std::thread::Builder::new().stack_size(512 << 10).spawn_scoped(s, || table::run_c15(&tier, odd, shard, nshards, &mut r)).expect("spawn");
                if let Err(e) = h.join() {
                    std::panic::resume_unwind(e);
                }
            });
            r
        }
        #[cfg(feature = "serde")]
        "c17s" => {
            let mut r = Report::new("liar-serde", "C17", &config);
            table::run_c17_serde(odd, &mut r);
            r
        }
        "c09" | "c12r" => {
            let shard: usize = arg("--shard", "0").parse().unwrap();
            let nshards: usize = arg("--nshards", "1").parse().unwrap();
            let p = if engine == "c09" { "C09" } else { "C12" };
            let mut r = Report::new("cursor", p, &config);
            cursor::run(&tier, odd, shard, nshards, p, &mut r);
            r
        }
        "c11" | "c12w" => {
            let shard: usize = arg("--shard", "0").parse().unwrap();
            let nshards: usize = arg("--nshards", "1").parse().unwrap();
            let p = if engine == "c11" { "C11" } else { "C12" };
            let mut r = Report::new("sink", p, &config);
            sink::run(&tier, odd, shard, nshards, p, &mut r);
            r
        }
        "c17" => {
            let shard: usize = arg("--shard", "0").parse().unwrap();
            let nshards: usize = arg("--nshards", "1").parse().unwrap();
            let mut r = Report::new("liar", "C17", &config);
            liar::run(&tier, odd, shard, nshards, &mut r);
            r
        }
        "c10" => {
            let shard: usize = arg("--shard", "0").parse().unwrap();
            let nshards: usize = arg("--nshards", "1").parse().unwrap();
            let mut r = Report::new("typed", "C10", &config);
            typed::run(&tier, odd, shard, nshards, &mut r);
            r
        }
        _ => {
            eprintln!("usage: bufmc c09|c10|c11|c12|c14|c15 [--tier quick|thorough] [--parity even|odd]");
            std::process::exit(2);
        }
    };
    if oracle::machinery_error() {
        rep.machinery_error = Some("oracle allocator ledger overflow".into());
    }
    rep.extra.push(("wall_s".into(), format!("{:.3}", t0.elapsed().as_secs_f64())));
    rep.print();
}
