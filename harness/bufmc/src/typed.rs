//! Engine B, typed reads (DESIGN.md §3 C10): complete table of every get_X / try_get_X
//! x buffer shapes (every chunk-boundary position inside and around the value, 1/2/3+
//! chunks, every leaf type, forwarding wrappers) x bytes consumed before the value
//! x shortfalls x byte patterns; oracle = independent decoding of the next bytes.
use crate::cursor::{build, Spec, Tree, GETTERS, VGETTERS};
use bytes::{Buf, TryGetError};
use oracle::report::Report;
use std::collections::BTreeSet;
use std::panic::{catch_unwind, AssertUnwindSafe};

/// Independent decoder: unsigned value of `b` in the given order (0 be, 1 le, 2 ne),
/// then two's-complement sign extension to 128 bits for signed kinds.
fn decode(b: &[u8], order: u8, signed: bool) -> u128 {
    let le = order == 1 || (order == 2 && cfg!(target_endian = "little"));
    let mut v: u128 = 0;
    if le {
        for (i, &x) in b.iter().enumerate() {
            v |= (x as u128) << (8 * i);
        }
    } else {
        for &x in b.iter() {
            v = (v << 8) | x as u128;
        }
    }
    let n = b.len();
    if signed && n > 0 && n < 16 {
        let sign = (v >> (8 * n - 1)) & 1;
        if sign == 1 {
            v |= u128::MAX << (8 * n);
        }
    }
    v
}

fn drain(t: &mut Tree) -> Vec<u8> {
    let mut out = vec![];
    let mut guard = 0;
    while t.has_remaining() && guard < 10_000 {
        let c = t.chunk();
        let n = c.len();
        if n == 0 {
            break;
        }
        out.extend_from_slice(c);
        t.advance(n);
        guard += 1;
    }
    out
}

/// Shapes holding exactly `b`: (spec, number of chunks the bytes are cut into).
fn shapes(b: &[u8], rich: bool, out: &mut Vec<Spec>) {
    let n = b.len();
    let sl = |x: &[u8]| Spec::Slice(x.to_vec());
    // contiguous, every leaf type
    out.push(sl(b));
    for r in 0..5u8 {
        if rich || r == 1 || r == 4 {
            out.push(Spec::Bytes(r, b.to_vec()));
        }
    }
    for r in 0..5u8 {
        if rich || r == 2 || r == 3 {
            out.push(Spec::BytesMut(r, b.to_vec()));
        }
    }
    out.push(Spec::Cursor(b.to_vec(), 0));
    out.push(Spec::Deque(n + 1, 0, b.to_vec()));
    // forwarding wrappers around a contiguous buffer
    out.push(Spec::Ref(Box::new(sl(b))));
    out.push(Spec::Dyn(Box::new(Spec::Bytes(1, b.to_vec()))));
    out.push(Spec::Take(Box::new(sl(b)), usize::MAX));
    out.push(Spec::Take(Box::new(Spec::BytesMut(0, b.to_vec())), n));
    // limits slightly beyond the data (the error of a short read must report min(inner, limit))
    out.push(Spec::Take(Box::new(sl(b)), n + 1));
    out.push(Spec::Take(Box::new(Spec::Cursor(b.to_vec(), 0)), n + 3));
    if n >= 2 {
        out.push(Spec::Take(Box::new(Spec::Chain(Box::new(sl(&b[..1])), Box::new(sl(&b[1..])))), n + 1));
    }
    // two chunks, boundary at every position (incl. the degenerate ends = empty chunk)
    for p in 0..=n {
        out.push(Spec::Chain(Box::new(sl(&b[..p])), Box::new(sl(&b[p..]))));
        if p > 0 && p < n {
            out.push(Spec::Frag(vec![b[..p].to_vec(), b[p..].to_vec()]));
            // ring buffer wrapping exactly at p
            out.push(Spec::Deque(n, n - p, b.to_vec()));
            if rich {
                out.push(Spec::Chain(Box::new(Spec::Bytes(4, b[..p].to_vec())), Box::new(Spec::BytesMut(2, b[p..].to_vec()))));
                out.push(Spec::Take(Box::new(Spec::Chain(Box::new(sl(&b[..p])), Box::new(Spec::Cursor(b[p..].to_vec(), 0)))), n));
                out.push(Spec::Dyn(Box::new(Spec::Frag(vec![b[..p].to_vec(), b[p..].to_vec()]))));
                out.push(Spec::Ref(Box::new(Spec::Chain(Box::new(sl(&b[..p])), Box::new(sl(&b[p..]))))));
            }
        }
        // three chunks with an empty middle
        out.push(Spec::Chain(Box::new(Spec::Chain(Box::new(sl(&b[..p])), Box::new(sl(&[])))), Box::new(sl(&b[p..]))));
    }
    // three non-empty chunks, both boundaries at every position
    for p in 1..n {
        for q in p + 1..n {
            out.push(Spec::Chain(Box::new(Spec::Chain(Box::new(sl(&b[..p])), Box::new(sl(&b[p..q])))), Box::new(sl(&b[q..]))));
            if rich || q == p + 1 {
                out.push(Spec::Frag(vec![b[..p].to_vec(), b[p..q].to_vec(), b[q..].to_vec()]));
                out.push(Spec::Chain(Box::new(sl(&b[..p])), Box::new(Spec::Chain(Box::new(sl(&b[p..q])), Box::new(sl(&b[q..]))))));
            }
        }
    }
    // chunk() hands out prefixes of varying length on successive calls (whole chunk / one byte)
    if n >= 2 {
        for mode in 1..=2u8 {
            out.push(Spec::Burst(vec![b.to_vec()], mode));
            out.push(Spec::Dyn(Box::new(Spec::Burst(vec![b[..n / 2].to_vec(), b[n / 2..].to_vec()], mode))));
        }
    }
    // one byte per chunk
    if n >= 2 {
        out.push(Spec::Frag(b.iter().map(|&x| vec![x]).collect()));
        out.push(Spec::FragV(b.iter().map(|&x| vec![x]).collect()));
    }
}

/// Byte patterns for a value of `size` bytes.
fn patterns(size: usize, all16: bool) -> Vec<Vec<u8>> {
    let edge = [0x00u8, 0x01, 0x7f, 0x80, 0xff];
    let mut v = vec![];
    if size == 0 {
        return vec![vec![]];
    }
    if size == 1 {
        for x in 0..=255u8 {
            v.push(vec![x]);
        }
        return v;
    }
    if size == 2 && all16 {
        for a in 0..=255u8 {
            for b in 0..=255u8 {
                v.push(vec![a, b]);
            }
        }
        return v;
    }
    for &a in &edge {
        for &b in &edge {
            let mut p: Vec<u8> = (0..size).map(|i| 0x11u8.wrapping_mul(i as u8 + 1) ^ 0x20).collect();
            p[0] = a;
            p[size - 1] = b;
            v.push(p);
        }
    }
    v
}

struct Cx<'a> {
    rep: &'a mut Report,
    parity_odd: bool,
    execs: u64,
    shapes_seen: BTreeSet<u64>,
    values_seen: BTreeSet<u128>,
    tracked: bool,
}

enum Out {
    Val(u128),
    Err(TryGetError),
    Panic,
}

impl<'a> Cx<'a> {
    /// Build `spec`, consume `k` bytes, run `f`, return (outcome, bytes left afterwards).
    fn exec(&mut self, spec: &Spec, k: usize, f: &dyn Fn(&mut Tree) -> Result<u128, TryGetError>) -> Result<(Out, Vec<u8>), String> {
        oracle::sys::set_crash_note(&format!("typed buffer={:?} consumed_before={}", spec, k));
        if self.tracked {
            oracle::begin_execution(self.parity_odd);
        }
        self.execs += 1;
        let r = oracle::subject(|| catch_unwind(AssertUnwindSafe(|| {
            let (mut t, _m) = build(spec);
            t.advance(k);
            let out = match catch_unwind(AssertUnwindSafe(|| f(&mut t))) {
                Ok(Ok(v)) => Out::Val(v),
                Ok(Err(e)) => Out::Err(e),
                Err(_) => Out::Panic,
            };
            let rest = oracle::harness(|| vec![]);
            let mut rest: Vec<u8> = rest;
            let d = match catch_unwind(AssertUnwindSafe(|| drain(&mut t))) {
                Ok(d) => d,
                Err(_) => vec![0xBA, 0xD0],
            };
            oracle::harness(|| rest.extend_from_slice(&d));
            drop(d);
            drop(t);
            (out, rest)
        })));
        let r = match r {
            Ok(r) => r,
            Err(_) => (Out::Panic, vec![0xBA, 0xD1]),
        };
        if !self.tracked {
            return Ok(r);
        }
        let end = oracle::end_execution();
        if let Some(v) = oracle::take_violation() {
            return Err(v);
        }
        if let Some(c) = end.corrupt {
            return Err(c);
        }
        if !end.leaked.is_empty() {
            return Err(format!("blocks leaked: {:?}", end.leaked));
        }
        Ok(r)
    }

    fn fail(&mut self, case: &str, msg: String, spec: &Spec, k: usize, name: &str, nbytes: Option<usize>) {
        let replay = format!(
            "{{\"engine\":\"typed\",\"method\":{},\"nbytes\":{},\"spec\":{},\"consumed_before\":{}}}",
            oracle::report::jstr(name),
            nbytes.map(|n| n.to_string()).unwrap_or("null".into()),
            oracle::report::jstr(&format!("{:?}", spec)),
            k
        );
        self.rep.violate("C10", case, &format!("{} | buffer {:?} after consuming {} bytes", msg, spec, k), &replay);
    }

    /// One (method, spec, k) cell: enough bytes present.
    #[allow(clippy::too_many_arguments)]
    fn cell_ok(
        &mut self,
        name: &str,
        nbytes: Option<usize>,
        size: usize,
        want: u128,
        all: &[u8],
        spec: &Spec,
        k: usize,
        get: &dyn Fn(&mut Tree) -> u128,
        try_get: &dyn Fn(&mut Tree) -> Result<u128, TryGetError>,
    ) {
        let after = &all[k + size..];
        let g = |t: &mut Tree| -> Result<u128, TryGetError> { Ok(get(t)) };
        match self.exec(spec, k, &g) {
            Err(m) => self.fail(&format!("{}:memory", name), m, spec, k, name, nbytes),
            Ok((Out::Val(v), rest)) => {
                if v != want {
                    self.fail(&format!("{}:value", name), format!("{}({}) returned {:#x}, the next bytes {:02x?} decode to {:#x}", name, nbytes.map(|n| n.to_string()).unwrap_or_default(), v, &all[k..k + size], want), spec, k, name, nbytes);
                }
                if rest != after {
                    self.fail(&format!("{}:cursor", name), format!("{} left {:02x?} in the buffer, want {:02x?}", name, rest, after), spec, k, name, nbytes);
                }
            }
            Ok((Out::Panic, _)) => self.fail(&format!("{}:panic", name), format!("{}({}) panicked with {} bytes remaining (needs {})", name, nbytes.map(|n| n.to_string()).unwrap_or_default(), all.len() - k, size), spec, k, name, nbytes),
            Ok((Out::Err(_), _)) => unreachable!(),
        }
        let tname = format!("try_{}", name);
        match self.exec(spec, k, try_get) {
            Err(m) => self.fail(&format!("{}:memory", tname), m, spec, k, &tname, nbytes),
            Ok((Out::Val(v), rest)) => {
                if v != want {
                    self.fail(&format!("{}:value", tname), format!("{}({}) returned Ok({:#x}), the next bytes {:02x?} decode to {:#x} (get returns that)", tname, nbytes.map(|n| n.to_string()).unwrap_or_default(), v, &all[k..k + size], want), spec, k, &tname, nbytes);
                }
                if rest != after {
                    self.fail(&format!("{}:cursor", tname), format!("{} left {:02x?} in the buffer, want {:02x?}", tname, rest, after), spec, k, &tname, nbytes);
                }
            }
            Ok((Out::Panic, _)) => self.fail(&format!("{}:panic", tname), format!("{}({}) panicked with {} bytes remaining (needs {})", tname, nbytes.map(|n| n.to_string()).unwrap_or_default(), all.len() - k, size), spec, k, &tname, nbytes),
            Ok((Out::Err(e), _)) => self.fail(&format!("{}:err", tname), format!("{} returned {:?} with {} bytes remaining (needs {})", tname, e, all.len() - k, size), spec, k, &tname, nbytes),
        }
        self.values_seen.insert(want);
    }

    /// One (method, spec, k) cell with fewer than `size` bytes remaining.
    #[allow(clippy::too_many_arguments)]
    fn cell_short(
        &mut self,
        name: &str,
        nbytes: Option<usize>,
        size: usize,
        all: &[u8],
        spec: &Spec,
        k: usize,
        get: &dyn Fn(&mut Tree) -> u128,
        try_get: &dyn Fn(&mut Tree) -> Result<u128, TryGetError>,
    ) {
        let avail = all.len() - k;
        let g = |t: &mut Tree| -> Result<u128, TryGetError> { Ok(get(t)) };
        match self.exec(spec, k, &g) {
            Err(m) => self.fail(&format!("{}:memory", name), m, spec, k, name, nbytes),
            Ok((Out::Panic, _)) => {}
            Ok((Out::Val(v), _)) => self.fail(&format!("{}:short-nopanic", name), format!("{} returned {:#x} with only {} of {} bytes remaining", name, v, avail, size), spec, k, name, nbytes),
            Ok((Out::Err(_), _)) => unreachable!(),
        }
        let tname = format!("try_{}", name);
        match self.exec(spec, k, try_get) {
            Err(m) => self.fail(&format!("{}:memory", tname), m, spec, k, &tname, nbytes),
            Ok((Out::Err(e), rest)) => {
                if e.requested != size || e.available != avail {
                    self.fail(&format!("{}:short-err", tname), format!("{} returned {:?}, want requested={} available={}", tname, e, size, avail), spec, k, &tname, nbytes);
                }
                if rest != all[k..] {
                    self.fail(&format!("{}:short-cursor", tname), format!("{} failed but moved the cursor: {:02x?} left, want {:02x?}", tname, rest, &all[k..]), spec, k, &tname, nbytes);
                }
            }
            Ok((Out::Val(v), _)) => self.fail(&format!("{}:short-ok", tname), format!("{} returned Ok({:#x}) with only {} of {} bytes remaining", tname, v, avail, size), spec, k, &tname, nbytes),
            Ok((Out::Panic, _)) => self.fail(&format!("{}:short-panic", tname), format!("{} panicked with {} of {} bytes remaining instead of returning Err", tname, avail, size), spec, k, &tname, nbytes),
        }
    }
}

pub fn run(tier: &str, parity_odd: bool, shard: usize, nshards: usize, rep: &mut Report) {
    let rich = tier == "thorough" || tier == "deep";
    let mut cx = Cx { rep, parity_odd, execs: 0, shapes_seen: BTreeSet::new(), values_seen: BTreeSet::new(), tracked: false };
    // method list: fixed-size getters, then (variable getter, nbytes)
    struct Meth {
        name: String,
        nbytes: Option<usize>,
        size: usize,
        order: u8,
        signed: bool,
        get: Box<dyn Fn(&mut Tree) -> u128>,
        try_get: Box<dyn Fn(&mut Tree) -> Result<u128, TryGetError>>,
    }
    let mut meths: Vec<Meth> = vec![];
    for g in GETTERS.iter() {
        let (gg, tg) = (g.get, g.try_get);
        meths.push(Meth { name: g.name.into(), nbytes: None, size: g.size, order: g.order, signed: g.kind == 1, get: Box::new(move |t| gg(t)), try_get: Box::new(move |t| tg(t)) });
    }
    for g in VGETTERS.iter() {
        for nb in 0..=8usize {
            let (gg, tg) = (g.get, g.try_get);
            meths.push(Meth { name: g.name.into(), nbytes: Some(nb), size: nb, order: g.order, signed: g.signed, get: Box::new(move |t| gg(t, nb)), try_get: Box::new(move |t| tg(t, nb)) });
        }
    }
    // the deep variant (vcheck thorough tier passes --tier deep): more bytes consumed before the value, more tail lengths
    let rich_deep = tier == "deep";
    let tails: Vec<usize> = if rich_deep { vec![0, 1, 2, 3, 7, 8, 9, 15, 16, 17, 33] } else { vec![0, 1, 9, 17] };
    let mut cells = 0u64;
    let mut methods_done = 0u64;
    // warm-up pass (untracked) over a few cells, then the tracked table
    for pass in 0..2 {
        cx.tracked = pass == 1;
        for (mi, m) in meths.iter().enumerate() {
            if pass == 0 && mi % 9 != 0 {
                continue;
            }
            if pass == 1 && mi % nshards != shard {
                continue;
            }
            if pass == 1 {
                methods_done += 1;
            }
            let pats = patterns(m.size, false);
            let kmax = if pass == 0 { 0 } else if rich_deep { 3 } else { 2 };
            for k in 0..=kmax {
                for tail in tails.iter().copied() {
                    // (long tails: the chunk that holds the value extends 8 / 16 bytes beyond it - word-load fast paths)
                    // full pattern set on a small spread of shapes; every shape on a reduced pattern set
                    let mut all0: Vec<u8> = (0..k).map(|i| 0xE0 + i as u8).collect();
                    all0.extend_from_slice(&pats[pats.len() / 2]);
                    all0.extend((0..tail).map(|i| 0xC0u8.wrapping_add(i as u8)));
                    let mut specs = vec![];
                    shapes(&all0, rich, &mut specs);
                    // one pass per pattern: the shape list is rebuilt once for the pattern's bytes, then every selected shape runs
                    for (pi, pat) in pats.iter().enumerate() {
                        let mut all: Vec<u8> = (0..k).map(|i| 0xE0 + i as u8).collect();
                        all.extend_from_slice(pat);
                        all.extend((0..tail).map(|i| 0xC0u8.wrapping_add(i as u8)));
                        let mut sp: Vec<Spec> = vec![];
                        let mut built = false;
                        for (si, spec0) in specs.iter().enumerate() {
                            let full = rich || si % 5 == 0;
                            let _ = full;
                            let take = if tail > 1 {
                                // long tails: every pattern of the <= 25-pattern sets on every third shape and on the contiguous one
                                (pats.len() <= 25 || pi % 16 == 0 || pi == 0x7f || pi == 0x80 || pi == 0xff) && (rich || si % 3 == 0 || matches!(spec0, Spec::Slice(_)))
                            } else if pats.len() > 25 {
                                si % 3 == 0 || pi % 16 == 0 || pi == 0x7f || pi == 0x80 || pi == 0xff
                            } else {
                                true
                            };
                            if !take {
                                continue;
                            }
                            if pass == 0 && (si % 11 != 0 || pi > 0) {
                                continue;
                            }
                            if !built {
                                shapes(&all, rich, &mut sp);
                                built = true;
                            }
                            let spec = &sp[si];
                            let want = decode(pat, m.order, m.signed);
                            cx.cell_ok(&m.name, m.nbytes, m.size, want, &all, spec, k, &*m.get, &*m.try_get);
                            cells += 1;
                            if cells % 60_000 == 1 && cx.tracked {
                                let s = format!("{}({:?}) on {:?} after consuming {} -> {:#x}", m.name, m.nbytes, spec, k, want);
                                cx.rep.sample(s);
                            }
                        }
                    }
                    for spec0 in specs.iter() {
                        let mut sig = format!("{:?}", spec0);
                        sig.retain(|c| !c.is_ascii_digit());
                        cx.shapes_seen.insert(oracle::report::hash128(sig.as_bytes()) as u64);
                    }
                }
                // shortfalls: 0..size-1 bytes available
                for avail in 0..m.size {
                    let mut all: Vec<u8> = (0..k).map(|i| 0xE0 + i as u8).collect();
                    all.extend((0..avail).map(|i| 0x31 + i as u8));
                    let mut specs = vec![];
                    shapes(&all, rich, &mut specs);
                    // an io::Cursor whose position is beyond its data holds nothing, alone or in front of the bytes
                    specs.push(Spec::Chain(Box::new(Spec::Cursor(vec![1, 2], 3)), Box::new(Spec::Slice(all.clone()))));
                    if all.is_empty() {
                        specs.push(Spec::Cursor(vec![1, 2], 3));
                        specs.push(Spec::Cursor(vec![], u64::MAX));
                        specs.push(Spec::Take(Box::new(Spec::Cursor(vec![1, 2, 3], 5)), 4));
                    }
                    for (si, spec) in specs.iter().enumerate() {
                        if pass == 0 && si % 11 != 0 {
                            continue;
                        }
                        cx.cell_short(&m.name, m.nbytes, m.size, &all, spec, k, &*m.get, &*m.try_get);
                        cells += 1;
                    }
                }
            }
        }
    }
    // 16-bit types: all 65 536 values (thorough: on several shapes; quick: contiguous + split)
    cx.tracked = true;
    let mut full16 = 0u64;
    for (mi, m) in meths.iter().enumerate() {
        if m.size != 2 || m.nbytes.is_some() || mi % nshards != shard {
            continue;
        }
        for pat in patterns(2, true) {
            let mut sp = vec![Spec::Slice(pat.clone()), Spec::Chain(Box::new(Spec::Slice(pat[..1].to_vec())), Box::new(Spec::Slice(pat[1..].to_vec())))];
            if rich {
                sp.push(Spec::Bytes(4, pat.clone()));
                sp.push(Spec::Deque(2, 1, pat.clone()));
            }
            let want = decode(&pat, m.order, m.signed);
            for spec in &sp {
                cx.cell_ok(&m.name, None, 2, want, &pat, spec, 0, &*m.get, &*m.try_get);
                full16 += 1;
            }
        }
    }
    // a finite header chained before an endless source (remaining() saturates at usize::MAX): every getter must see
    // header bytes followed by the stream, in both flavours
    let mut endless = 0u64;
    for (mi, m) in meths.iter().enumerate() {
        if mi % nshards != shard || m.size == 0 {
            continue;
        }
        for h in 0..=m.size.min(3) {
            let hdr: Vec<u8> = (0..h).map(|i| 0x11 * (i as u8 + 1)).collect();
            let mut bytes = hdr.clone();
            while bytes.len() < m.size {
                // the endless source never moves (advance is a no-op, chunk() is always the 8-byte pattern)
                let need = m.size - bytes.len();
                bytes.extend_from_slice(&crate::cursor::PATTERN[..need.min(8)]);
            }
            let want = decode(&bytes[..m.size], m.order, m.signed);
            for flavour in 0..2 {
                let name = if flavour == 0 { m.name.clone() } else { format!("try_{}", m.name) };
                oracle::sys::set_crash_note(&format!("typed endless {}({:?}) header {} bytes", name, m.nbytes, h));
                oracle::begin_execution(parity_odd);
                cx.execs += 1;
                endless += 1;
                let hd: &'static [u8] = oracle::harness(|| Box::leak(hdr.clone().into_boxed_slice()));
                let r = oracle::subject(|| catch_unwind(AssertUnwindSafe(|| {
                    let mut t = Tree::Dyn(Box::new(Buf::chain(hd, crate::cursor::Endless)));
                    let rem0 = t.remaining();
                    let out = if flavour == 0 { Ok((m.get)(&mut t)) } else { (m.try_get)(&mut t) };
                    (rem0, out)
                })));
                let _ = oracle::end_execution();
                let spec = Spec::Slice(hdr.clone());
                match r {
                    Ok((rem0, Ok(v))) => {
                        if rem0 != usize::MAX {
                            cx.fail(&format!("{}:endless-remaining", name), format!("a {}-byte header chained before an endless source reports remaining() = {}, want usize::MAX", h, rem0), &spec, 0, &name, m.nbytes);
                        }
                        if v != want {
                            cx.fail(&format!("{}:endless-value", name), format!("{} on a {}-byte header chained before an endless source returned {:#x}, the next bytes {:02x?} decode to {:#x}", name, h, v, &bytes[..m.size], want), &spec, 0, &name, m.nbytes);
                        }
                    }
                    Ok((_, Err(e))) => cx.fail(&format!("{}:endless-err", name), format!("{} on a {}-byte header chained before an endless source returned {:?}", name, h, e), &spec, 0, &name, m.nbytes),
                    Err(_) => cx.fail(&format!("{}:endless-panic", name), format!("{} on a {}-byte header chained before an endless source panicked", name, h), &spec, 0, &name, m.nbytes),
                }
            }
        }
    }
    cx.rep.extra_num("endless_source_cells", endless);
    // nbytes > 8 must panic for both flavours (documented)
    for g in VGETTERS.iter() {
        for nb in [9usize, 16, usize::MAX] {
            let all: Vec<u8> = (0..20).collect();
            let spec = Spec::Slice(all.clone());
            let (gg, tg) = (g.get, g.try_get);
            for (nm, f) in [(g.name.to_string(), Box::new(move |t: &mut Tree| Ok(gg(t, nb))) as Box<dyn Fn(&mut Tree) -> Result<u128, TryGetError>>), (format!("try_{}", g.name), Box::new(move |t: &mut Tree| tg(t, nb)))] {
                match cx.exec(&spec, 0, &*f) {
                    Ok((Out::Panic, _)) => {}
                    Ok((_, _)) => cx.fail(&format!("{}:nbytes>8", nm), format!("{}({}) did not panic", nm, nb), &spec, 0, &nm, Some(nb)),
                    Err(e) => cx.fail(&format!("{}:memory", nm), e, &spec, 0, &nm, Some(nb)),
                }
            }
        }
    }
    let execs = cx.execs;
    let shapes_n = cx.shapes_seen.len() as u64;
    let values = cx.values_seen.len() as u64;
    rep.evaluations = execs;
    rep.states = cells + full16;
    rep.transitions = execs;
    rep.traces = execs;
    rep.distinct_nontrivial = values;
    rep.extra_num("methods_in_shard", methods_done);
    rep.extra_num("methods_total", meths.len() as u64 * 2);
    rep.extra_num("cells", cells);
    rep.extra_num("full_16bit_cells", full16);
    rep.extra_num("distinct_shapes", shapes_n);
    rep.extra_num("distinct_expected_values", values);
}
