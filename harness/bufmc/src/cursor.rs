//! Engine B, read side (DESIGN.md §3 C09, C12): adapter trees over every Buf leaf the crate
//! provides, all fragmentations, all cursor-operation sequences up to a depth; oracle = a
//! flat `Vec<u8>` denotation plus a structural model (limits and per-leaf positions).
use bytes::buf::{Chain, Reader, Take};
use bytes::{Buf, BufMut, Bytes, BytesMut, TryGetError};
use oracle::report::Report;
use std::collections::{BTreeSet, VecDeque};
use std::io::{self, BufRead, IoSlice, Read};
use std::panic::{catch_unwind, AssertUnwindSafe};

// ------------------------------------------------------------------ lawful multi-chunk Bufs

/// A lawful user-level Buf made of several chunks; uses the *default* `chunks_vectored`
/// (reports one chunk) and the default `copy_to_bytes` etc.
#[derive(Debug, Clone)]
pub struct Frag {
    pub chunks: Vec<Vec<u8>>,
    pub idx: usize,
    pub off: usize,
    /// 0: chunk() always returns the whole current chunk; 1 / 2: successive chunk() calls alternate between
    /// the whole current chunk and its first byte only (starting with the whole chunk / with one byte) -
    /// a lawful Buf: only remaining() is fixed between calls, chunk() may hand out prefixes of any length
    pub burst: u8,
    pub calls: std::cell::Cell<u32>,
}
impl Frag {
    pub fn new(chunks: Vec<Vec<u8>>) -> Frag {
        let mut f = Frag { chunks, idx: 0, off: 0, burst: 0, calls: std::cell::Cell::new(0) };
        f.norm();
        f
    }
    pub fn bursty(chunks: Vec<Vec<u8>>, mode: u8) -> Frag {
        let mut f = Frag::new(chunks);
        f.burst = mode;
        f
    }
    fn norm(&mut self) {
        while self.idx < self.chunks.len() && self.off >= self.chunks[self.idx].len() {
            self.idx += 1;
            self.off = 0;
        }
    }
    pub fn rest(&self) -> Vec<u8> {
        let mut v = vec![];
        for (i, c) in self.chunks.iter().enumerate().skip(self.idx) {
            v.extend_from_slice(if i == self.idx { &c[self.off..] } else { &c[..] });
        }
        v
    }
}
impl Buf for Frag {
    fn remaining(&self) -> usize {
        let mut n = 0;
        for (i, c) in self.chunks.iter().enumerate().skip(self.idx) {
            n += if i == self.idx { c.len() - self.off } else { c.len() };
        }
        n
    }
    fn chunk(&self) -> &[u8] {
        if self.idx < self.chunks.len() {
            let full = &self.chunks[self.idx][self.off..];
            if self.burst != 0 {
                let n = self.calls.get();
                self.calls.set(n + 1);
                let short = (n + if self.burst == 2 { 1 } else { 0 }) % 2 == 1;
                if short && full.len() > 1 {
                    return &full[..1];
                }
            }
            full
        } else {
            &[]
        }
    }
    fn advance(&mut self, mut cnt: usize) {
        assert!(cnt <= self.remaining(), "Frag: advance past end");
        while cnt > 0 {
            let left = self.chunks[self.idx].len() - self.off;
            let k = left.min(cnt);
            self.off += k;
            cnt -= k;
            self.norm();
        }
    }
}
/// Same, but `chunks_vectored` reports every chunk that fits (also lawful).
#[derive(Debug, Clone)]
pub struct FragV(pub Frag);
impl Buf for FragV {
    fn remaining(&self) -> usize {
        self.0.remaining()
    }
    fn chunk(&self) -> &[u8] {
        self.0.chunk()
    }
    fn advance(&mut self, cnt: usize) {
        self.0.advance(cnt)
    }
    fn chunks_vectored<'a>(&'a self, dst: &mut [IoSlice<'a>]) -> usize {
        let mut n = 0;
        for (i, c) in self.0.chunks.iter().enumerate().skip(self.0.idx) {
            let s = if i == self.0.idx { &c[self.0.off..] } else { &c[..] };
            if s.is_empty() {
                continue;
            }
            if n == dst.len() {
                break;
            }
            dst[n] = IoSlice::new(s);
            n += 1;
        }
        n
    }
}

// ------------------------------------------------------------------ the tree of real crate types

pub struct RefBox(pub &'static mut Tree);
impl Drop for RefBox {
    fn drop(&mut self) {
        let p = self.0 as *mut Tree;
        unsafe { drop(Box::from_raw(p)) };
    }
}

pub enum Tree {
    Slice(&'static [u8]),
    Bytes(Bytes),
    BytesMut(BytesMut),
    Cursor(io::Cursor<Vec<u8>>),
    Deque(VecDeque<u8>),
    Frag(Frag),
    FragV(FragV),
    Take(Take<Box<Tree>>),
    Chain(Chain<Box<Tree>, Box<Tree>>),
    /// accessed through `impl Buf for &mut T`
    Ref(RefBox),
    /// accessed through `impl Buf for Box<T: ?Sized>` on a trait object
    Dyn(Box<dyn Buf>),
}

include!("gen_buf.rs");

// ------------------------------------------------------------------ specs and models

#[derive(Clone, Debug, PartialEq, Eq, Hash)]
pub enum Spec {
    Slice(Vec<u8>),
    /// representation index into `BYTES_REPS`
    Bytes(u8, Vec<u8>),
    BytesMut(u8, Vec<u8>),
    /// data, position (may be past the end)
    Cursor(Vec<u8>, u64),
    /// capacity, head offset, data
    Deque(usize, usize, Vec<u8>),
    Frag(Vec<Vec<u8>>),
    FragV(Vec<Vec<u8>>),
    /// Frag whose chunk() alternates between the whole chunk and a one-byte prefix (mode 1 / 2)
    Burst(Vec<Vec<u8>>, u8),
    Take(Box<Spec>, usize),
    Chain(Box<Spec>, Box<Spec>),
    Ref(Box<Spec>),
    Dyn(Box<Spec>),
}

pub const BYTES_REPS: &[&str] = &["static", "vec_exact", "vec_spare_shared", "owner", "frozen_shared_offset"];
pub const BYTESMUT_REPS: &[&str] = &["inline", "inline_offset", "shared_offset", "inline_spare", "shared_offset_spare"];

#[derive(Clone, Debug, PartialEq, Eq)]
pub enum M {
    Leaf(Vec<u8>),
    Take(Box<M>, usize),
    Chain(Box<M>, Box<M>),
    Wrap(Box<M>),
}
impl M {
    pub fn flat(&self) -> Vec<u8> {
        match self {
            M::Leaf(v) => v.clone(),
            M::Take(m, l) => {
                let mut f = m.flat();
                f.truncate(*l);
                f
            }
            M::Chain(a, b) => {
                let mut f = a.flat();
                f.extend(b.flat());
                f
            }
            M::Wrap(m) => m.flat(),
        }
    }
    pub fn len(&self) -> usize {
        self.flat().len()
    }
    /// remove the first n bytes (n <= len)
    pub fn advance(&mut self, n: usize) {
        match self {
            M::Leaf(v) => {
                v.drain(..n);
            }
            M::Take(m, l) => {
                m.advance(n);
                *l -= n;
            }
            M::Chain(a, b) => {
                let k = n.min(a.len());
                a.advance(k);
                b.advance(n - k);
            }
            M::Wrap(m) => m.advance(n),
        }
    }
}

fn leak(x: &[u8]) -> &'static [u8] {
    // intentionally leaked 'static data is harness memory, not crate memory
    oracle::harness(|| Box::leak(x.to_vec().into_boxed_slice()))
}

const PAD: u8 = 0x5a;

pub fn build(s: &Spec) -> (Tree, M) {
    match s {
        Spec::Slice(d) => (Tree::Slice(leak(d)), M::Leaf(d.clone())),
        Spec::Bytes(rep, d) => {
            let n = d.len();
            let b = match rep {
                0 => Bytes::from_static(leak(d)),
                1 => Bytes::from(d.clone()),
                2 => {
                    let mut v = Vec::with_capacity(n + 3);
                    v.extend_from_slice(d);
                    Bytes::from(v)
                }
                3 => Bytes::from_owner(d.clone()),
                _ => {
                    let mut v = vec![PAD];
                    v.extend_from_slice(d);
                    v.push(PAD);
                    let mut m = BytesMut::from(&v[..]);
                    let _head = m.split_to(1);
                    let _tail = m.split_off(n);
                    m.freeze()
                }
            };
            (Tree::Bytes(b), M::Leaf(d.clone()))
        }
        Spec::BytesMut(rep, d) => {
            let n = d.len();
            let b = match rep {
                0 => BytesMut::from(&d[..]),
                1 => {
                    let mut v = vec![PAD];
                    v.extend_from_slice(d);
                    let mut m = BytesMut::from(&v[..]);
                    m.advance(1);
                    m
                }
                2 => {
                    let mut v = vec![PAD];
                    v.extend_from_slice(d);
                    v.push(PAD);
                    let mut m = BytesMut::from(&v[..]);
                    let _head = m.split_to(1);
                    let _tail = m.split_off(n);
                    m
                }
                3 => {
                    // spare capacity behind the bytes (len < capacity)
                    let mut m = BytesMut::with_capacity(n + 3);
                    m.extend_from_slice(d);
                    m
                }
                _ => {
                    // the remainder after split_to: shared storage, offset, spare capacity
                    let mut m = BytesMut::with_capacity(n + 5);
                    m.extend_from_slice(&[PAD]);
                    m.extend_from_slice(d);
                    let _head = m.split_to(1);
                    m
                }
            };
            (Tree::BytesMut(b), M::Leaf(d.clone()))
        }
        Spec::Cursor(d, pos) => {
            let mut c = io::Cursor::new(d.clone());
            c.set_position(*pos);
            let rest = if (*pos as usize) <= d.len() && *pos <= usize::MAX as u64 { d[*pos as usize..].to_vec() } else { vec![] };
            (Tree::Cursor(c), M::Leaf(rest))
        }
        Spec::Deque(cap, head, d) => {
            let mut q: VecDeque<u8> = VecDeque::with_capacity(*cap);
            for _ in 0..*head {
                q.push_back(0);
            }
            for _ in 0..*head {
                q.pop_front();
            }
            for &b in d {
                q.push_back(b);
            }
            (Tree::Deque(q), M::Leaf(d.clone()))
        }
        Spec::Frag(c) => (Tree::Frag(Frag::new(c.clone())), M::Leaf(c.concat())),
        Spec::FragV(c) => (Tree::FragV(FragV(Frag::new(c.clone()))), M::Leaf(c.concat())),
        Spec::Burst(c, mode) => (Tree::Frag(Frag::bursty(c.clone(), *mode)), M::Leaf(c.concat())),
        Spec::Take(i, l) => {
            let (t, m) = build(i);
            (Tree::Take(Box::new(t).take(*l)), M::Take(Box::new(m), *l))
        }
        Spec::Chain(a, b) => {
            let (ta, ma) = build(a);
            let (tb, mb) = build(b);
            (Tree::Chain(Box::new(ta).chain(Box::new(tb))), M::Chain(Box::new(ma), Box::new(mb)))
        }
        Spec::Ref(i) => {
            let (t, m) = build(i);
            (Tree::Ref(RefBox(Box::leak(Box::new(t)))), M::Wrap(Box::new(m)))
        }
        Spec::Dyn(i) => {
            let (t, m) = build(i);
            (Tree::Dyn(Box::new(t) as Box<dyn Buf>), M::Wrap(Box::new(m)))
        }
    }
}

/// Structural comparison (C12): limits and the position of every inner buffer.
pub fn check_struct(t: &Tree, m: &M) -> Result<(), String> {
    match (t, m) {
        (Tree::Take(t), M::Take(mi, lim)) => {
            // the model limit may exceed what the implementation stores only if they started equal; compare exactly
            if t.limit() != *lim {
                return Err(format!("Take::limit() = {} but {} bytes of the limit remain", t.limit(), lim));
            }
            check_struct(t.get_ref(), mi)
        }
        (Tree::Chain(c), M::Chain(a, b)) => {
            check_struct(c.first_ref(), a).map_err(|e| format!("Chain::first_ref: {}", e))?;
            check_struct(c.last_ref(), b).map_err(|e| format!("Chain::last_ref: {}", e))
        }
        (Tree::Ref(rb), M::Wrap(m)) => check_struct(&*rb.0, m),
        (Tree::Dyn(d), M::Wrap(m)) => {
            let f = m.flat();
            if d.remaining() != f.len() {
                return Err(format!("Box<dyn Buf>: remaining {} want {}", d.remaining(), f.len()));
            }
            Ok(())
        }
        (leaf, M::Leaf(want)) => {
            let got: Vec<u8> = match leaf {
                Tree::Slice(s) => s.to_vec(),
                Tree::Bytes(b) => b[..].to_vec(),
                Tree::BytesMut(b) => b[..].to_vec(),
                Tree::Cursor(c) => {
                    let d = c.get_ref();
                    let p = c.position();
                    if p <= d.len() as u64 {
                        d[p as usize..].to_vec()
                    } else {
                        vec![]
                    }
                }
                Tree::Deque(q) => q.iter().cloned().collect(),
                Tree::Frag(f) => f.rest(),
                Tree::FragV(f) => f.0.rest(),
                _ => return Err("model/tree shape mismatch (harness bug)".into()),
            };
            if &got != want {
                return Err(format!("inner buffer holds {:02x?} but should have been advanced to {:02x?}", got, want));
            }
            Ok(())
        }
        _ => Err("model/tree shape mismatch (harness bug)".into()),
    }
}

/// Take the adapters apart with `into_inner()` and compare every piece with the model.
fn dismantle(t: Tree, m: &M) -> Result<(), String> {
    match (t, m) {
        (Tree::Take(tk), M::Take(mi, lim)) => {
            if tk.limit() != *lim {
                return Err(format!("Take::limit() = {} but {} bytes of the limit remain", tk.limit(), lim));
            }
            let inner: Box<Tree> = tk.into_inner();
            dismantle(*inner, mi).map_err(|e| format!("Take::into_inner: {}", e))
        }
        (Tree::Chain(c), M::Chain(a, b)) => {
            let (x, y): (Box<Tree>, Box<Tree>) = c.into_inner();
            dismantle(*x, a).map_err(|e| format!("Chain::into_inner().0: {}", e))?;
            dismantle(*y, b).map_err(|e| format!("Chain::into_inner().1: {}", e))
        }
        (other, m) => check_struct(&other, m),
    }
}

/// Advance the innermost buffer that still has bytes by one, through the mutable accessors only.
/// Returns false if nothing could be advanced. The model is updated accordingly (limits unchanged).
fn poke(t: &mut Tree, m: &mut M) -> bool {
    match (t, m) {
        (Tree::Take(tk), M::Take(mi, _)) => poke(tk.get_mut(), mi),
        (Tree::Chain(c), M::Chain(a, b)) => {
            if a.len() > 0 {
                poke(c.first_mut(), a)
            } else {
                poke(c.last_mut(), b)
            }
        }
        (Tree::Ref(rb), M::Wrap(mi)) => poke(&mut *rb.0, mi),
        (Tree::Dyn(_), _) => false,
        (leaf, M::Leaf(v)) => {
            if v.is_empty() {
                return false;
            }
            leaf.advance(1);
            v.remove(0);
            true
        }
        _ => false,
    }
}

/// Append two bytes to the sequence denoted by this subtree, through the mutable accessors only (limits of
/// Take nodes on the way are raised by two). Returns false if no leaf of the subtree can be extended.
fn give(t: &mut Tree, m: &mut M) -> bool {
    match (t, m) {
        (Tree::Take(tk), M::Take(mi, l)) => {
            if give(tk.get_mut(), mi) {
                let nl = tk.limit().saturating_add(2);
                tk.set_limit(nl);
                *l = nl;
                true
            } else {
                false
            }
        }
        (Tree::Ref(rb), M::Wrap(mi)) => give(&mut *rb.0, mi),
        (Tree::Chain(c), M::Chain(a, b)) => give(c.last_mut(), b) || give(c.first_mut(), a),
        (Tree::Dyn(_), _) => false,
        (leaf, M::Leaf(v)) => {
            const MORE: [u8; 2] = [0xE1, 0xE2];
            match leaf {
                Tree::BytesMut(b) => {
                    b.extend_from_slice(&MORE);
                    v.extend_from_slice(&MORE);
                }
                Tree::Deque(q) => {
                    q.push_back(MORE[0]);
                    q.push_back(MORE[1]);
                    v.extend_from_slice(&MORE);
                }
                Tree::Slice(s) => {
                    v.extend_from_slice(&MORE);
                    *s = leak(v);
                }
                Tree::Bytes(b) => {
                    v.extend_from_slice(&MORE);
                    *b = Bytes::from(v.clone());
                }
                Tree::Cursor(c) => {
                    c.get_mut().extend_from_slice(&MORE);
                    let (d, p) = (c.get_ref(), c.position());
                    *v = if p <= d.len() as u64 { d[p as usize..].to_vec() } else { vec![] };
                }
                _ => return false,
            }
            true
        }
        _ => false,
    }
}

/// Give the first half of the outermost reachable Chain two more bytes through first_mut() (after it may already
/// have been drained and the chain moved on to its second half). Returns false if the tree has no such Chain.
fn refill(t: &mut Tree, m: &mut M) -> bool {
    match (t, m) {
        (Tree::Take(tk), M::Take(mi, _)) => refill(tk.get_mut(), mi),
        (Tree::Ref(rb), M::Wrap(mi)) => refill(&mut *rb.0, mi),
        (Tree::Chain(c), M::Chain(a, b)) => {
            if give(c.first_mut(), a) {
                true
            } else {
                refill(c.last_mut(), b)
            }
        }
        _ => false,
    }
}

// ------------------------------------------------------------------ operations

#[derive(Clone, Copy, Debug, PartialEq, Eq, Hash)]
pub enum Op {
    Advance(usize),
    CopyToSlice(usize),
    TryCopyToSlice(usize),
    CopyToBytes(usize),
    GetU8,
    /// root must be a Take
    SetLimit(usize),
    /// root is wrapped in a Reader: io::Read::read with a dst of this size
    Read(usize),
    /// BufRead::fill_buf then consume(k)
    Consume(usize),
    /// terminal: into_iter().collect()
    /// consume through IntoIter: 0 = next() loop with size_hint checks, 1.. = iterator adaptors (nth / skip / step_by / last / count)
    IntoIter(u8),
    /// io::Read provided methods on a Reader: 0 read_to_end into a non-empty Vec, 1 read_exact(min(2,rem)), 2 read_exact(rem+1) must fail,
    /// 3 read_to_string (Ok iff the rest is UTF-8), 4 bytes() iterator, 5 read_vectored into two buffers
    ReadMore(u8),
    /// take the adapters apart with into_inner() (recursively) and compare every piece with the structural model
    Dismantle,
    /// advance the innermost buffer by one byte through get_mut() / first_mut() / last_mut(), bypassing the adapters
    PokeInner,
    /// append two bytes to the first half of the outermost Chain through first_mut() (not terminal: the sequence goes on)
    RefillInner,
}

pub enum Root {
    Plain(Tree),
    Reader(Reader<Tree>),
}
impl Root {
    fn tree(&self) -> &Tree {
        match self {
            Root::Plain(t) => t,
            Root::Reader(r) => r.get_ref(),
        }
    }
    fn tree_mut(&mut self) -> &mut Tree {
        match self {
            Root::Plain(t) => t,
            Root::Reader(r) => r.get_mut(),
        }
    }
}

static SENTINEL: [u8; 3] = [0xEE, 0xEE, 0xEE];

pub struct Fail {
    pub property: &'static str,
    pub case: String,
    pub msg: String,
}
fn f9(case: &str, msg: String) -> Fail {
    Fail { property: "C09", case: case.into(), msg }
}
fn f12(case: &str, msg: String) -> Fail {
    Fail { property: "C12", case: case.into(), msg }
}

/// Non-destructive observations at the current state.
pub fn observe(root: &Root, m: &M, stats: &mut Stats) -> Result<(), Fail> {
    let t = root.tree();
    let flat = m.flat();
    let rem = t.remaining();
    if rem != flat.len() {
        return Err(f9("remaining", format!("remaining() = {} but {} bytes are left ({:02x?})", rem, flat.len(), flat)));
    }
    if t.has_remaining() != !flat.is_empty() {
        return Err(f9("has_remaining", format!("has_remaining() = {} with {} bytes left", t.has_remaining(), flat.len())));
    }
    let c = t.chunk();
    if !flat.starts_with(c) {
        return Err(f9("chunk-prefix", format!("chunk() = {:02x?} is not a prefix of the remaining bytes {:02x?}", c, flat)));
    }
    if c.is_empty() && !flat.is_empty() {
        return Err(f9("chunk-empty", format!("chunk() is empty although {} bytes remain", flat.len())));
    }
    for &n in &[0usize, 1, 2, 3, 16, 17, 18, 21, 40] {
        let mut dst: Vec<IoSlice<'_>> = (0..n).map(|_| IoSlice::new(&SENTINEL)).collect();
        let cnt = t.chunks_vectored(&mut dst);
        stats.vectored += 1;
        if cnt > n {
            return Err(f9("vectored-count", format!("chunks_vectored(dst.len()={}) returned {}", n, cnt)));
        }
        let mut cat = vec![];
        let mut nonempty = false;
        for s in &dst[..cnt] {
            cat.extend_from_slice(s);
            nonempty |= !s.is_empty();
        }
        if !flat.starts_with(&cat) {
            return Err(f9(
                "vectored-prefix",
                format!("chunks_vectored(dst.len()={}) filled {} slices whose concatenation {:02x?} is not a prefix of {:02x?}", n, cnt, cat, flat),
            ));
        }
        if n > 0 && !flat.is_empty() && !nonempty {
            return Err(f9("vectored-progress", format!("chunks_vectored(dst.len()={}) reported no non-empty slice although {} bytes remain", n, flat.len())));
        }
        for (i, s) in dst[cnt..].iter().enumerate() {
            if s.as_ptr() != SENTINEL.as_ptr() || s.len() != 3 {
                return Err(f9("vectored-untouched", format!("chunks_vectored(dst.len()={}) returned {} but modified dst[{}]", n, cnt, cnt + i)));
            }
        }
        if cnt > 1 {
            stats.multi_slice += 1;
        }
    }
    if let Root::Reader(_) = root {
        // nothing extra: Reader observations are in the ops
    }
    check_struct(t, m).map_err(|e| f12("structure", e))?;
    Ok(())
}

#[derive(Default)]
pub struct Stats {
    pub execs: u64,
    pub steps: u64,
    pub vectored: u64,
    pub multi_slice: u64,
    pub panics_expected: u64,
    pub outcomes: BTreeSet<u64>,
}

/// Apply one consuming operation; returns Ok(true) if the sequence may continue,
/// Ok(false) if it was terminal (expected panic / iterator).
pub fn apply(root: &mut Root, m: &mut M, op: Op, stats: &mut Stats) -> Result<bool, Fail> {
    let flat = m.flat();
    let rem = flat.len();
    stats.steps += 1;
    macro_rules! guarded {
        ($e:expr) => {
            catch_unwind(AssertUnwindSafe(|| $e))
        };
    }
    match op {
        Op::Advance(k) => {
            let r = guarded!(root.tree_mut().advance(k));
            if k > rem {
                stats.panics_expected += 1;
                if r.is_ok() {
                    return Err(f9("advance-nopanic", format!("advance({}) with {} bytes remaining did not panic", k, rem)));
                }
                return Ok(false);
            }
            if r.is_err() {
                return Err(f9("advance-panic", format!("advance({}) with {} bytes remaining panicked", k, rem)));
            }
            m.advance(k);
        }
        Op::CopyToSlice(k) => {
            let mut dst = vec![0xEEu8; k];
            let r = guarded!(root.tree_mut().copy_to_slice(&mut dst));
            if k > rem {
                stats.panics_expected += 1;
                if r.is_ok() {
                    return Err(f9("copy_to_slice-nopanic", format!("copy_to_slice(len {}) with {} bytes remaining did not panic", k, rem)));
                }
                return Ok(false);
            }
            if r.is_err() {
                return Err(f9("copy_to_slice-panic", format!("copy_to_slice(len {}) with {} bytes remaining panicked", k, rem)));
            }
            if dst != flat[..k] {
                return Err(f9("copy_to_slice-bytes", format!("copy_to_slice(len {}) produced {:02x?}, want {:02x?}", k, dst, &flat[..k])));
            }
            m.advance(k);
        }
        Op::TryCopyToSlice(k) => {
            let mut dst = vec![0xEEu8; k];
            let r = guarded!(root.tree_mut().try_copy_to_slice(&mut dst));
            let r = match r {
                Ok(r) => r,
                Err(_) => return Err(f9("try_copy_to_slice-panic", format!("try_copy_to_slice(len {}) with {} bytes remaining panicked", k, rem))),
            };
            if k > rem {
                match r {
                    Err(TryGetError { requested, available }) if requested == k && available == rem => {}
                    other => return Err(f9("try_copy_to_slice-err", format!("try_copy_to_slice(len {}) with {} remaining returned {:?}", k, rem, other))),
                }
                // cursor untouched: checked by the observation that follows
            } else {
                if r.is_err() {
                    return Err(f9("try_copy_to_slice-err", format!("try_copy_to_slice(len {}) with {} remaining returned {:?}", k, rem, r)));
                }
                if dst != flat[..k] {
                    return Err(f9("try_copy_to_slice-bytes", format!("try_copy_to_slice(len {}) produced {:02x?}, want {:02x?}", k, dst, &flat[..k])));
                }
                m.advance(k);
            }
        }
        Op::CopyToBytes(k) => {
            let r = guarded!(root.tree_mut().copy_to_bytes(k));
            if k > rem {
                stats.panics_expected += 1;
                if r.is_ok() {
                    return Err(f9("copy_to_bytes-nopanic", format!("copy_to_bytes({}) with {} bytes remaining did not panic", k, rem)));
                }
                return Ok(false);
            }
            match r {
                Err(_) => return Err(f9("copy_to_bytes-panic", format!("copy_to_bytes({}) with {} bytes remaining panicked", k, rem))),
                Ok(b) => {
                    if b[..] != flat[..k] {
                        return Err(f9("copy_to_bytes-bytes", format!("copy_to_bytes({}) returned {:02x?}, want {:02x?}", k, &b[..], &flat[..k])));
                    }
                }
            }
            m.advance(k);
        }
        Op::GetU8 => {
            let r = guarded!(root.tree_mut().get_u8());
            if rem == 0 {
                stats.panics_expected += 1;
                if r.is_ok() {
                    return Err(f9("get_u8-nopanic", "get_u8() on an exhausted buffer did not panic".into()));
                }
                return Ok(false);
            }
            match r {
                Ok(v) if v == flat[0] => {}
                Ok(v) => return Err(f9("get_u8-value", format!("get_u8() = {:02x}, want {:02x}", v, flat[0]))),
                Err(_) => return Err(f9("get_u8-panic", "get_u8() panicked with bytes remaining".into())),
            }
            m.advance(1);
        }
        Op::SetLimit(l) => match (root.tree_mut(), &mut *m) {
            (Tree::Take(t), M::Take(_, ml)) => {
                t.set_limit(l);
                *ml = l;
            }
            _ => return Ok(true),
        },
        Op::Read(k) => {
            if let Root::Reader(r) = root {
                let mut dst = vec![0xEEu8; k];
                let res = guarded!(r.read(&mut dst));
                let want = k.min(rem);
                match res {
                    Ok(Ok(n)) if n == want => {
                        if dst[..n] != flat[..n] {
                            return Err(f12("reader-bytes", format!("Reader::read(dst len {}) delivered {:02x?}, want {:02x?}", k, &dst[..n], &flat[..n])));
                        }
                        if dst[n..].iter().any(|&b| b != 0xEE) {
                            return Err(f12("reader-overrun", format!("Reader::read(dst len {}) returned {} but wrote beyond it", k, n)));
                        }
                        m.advance(n);
                    }
                    Ok(other) => return Err(f12("reader-count", format!("Reader::read(dst len {}) with {} available returned {:?}, want Ok({})", k, rem, other, want))),
                    Err(_) => return Err(f12("reader-panic", format!("Reader::read(dst len {}) with {} available panicked", k, rem))),
                }
            }
        }
        Op::ReadMore(mode) => {
            if let Root::Reader(r) = root {
                match mode {
                    0 => {
                        let mut v = vec![0x77u8, 0x78];
                        let res = guarded!(r.read_to_end(&mut v));
                        match res {
                            Ok(Ok(n)) => {
                                if n != rem {
                                    return Err(f12("read_to_end-count", format!("Reader::read_to_end into a Vec that already held 2 bytes returned Ok({}) with {} bytes available", n, rem)));
                                }
                                if v[..2] != [0x77, 0x78] || v[2..] != flat[..] {
                                    return Err(f12("read_to_end-bytes", format!("Reader::read_to_end produced {:02x?}, want [77, 78] followed by {:02x?}", v, flat)));
                                }
                                m.advance(rem);
                            }
                            other => return Err(f12("read_to_end", format!("Reader::read_to_end failed or panicked with {} bytes available: {:?}", rem, other.map(|r| r.map_err(|e| e.to_string())).map_err(|_| "panic")))),
                        }
                    }
                    1 | 2 => {
                        let k = if mode == 1 { rem.min(2) } else { rem + 1 };
                        let mut dst = vec![0xEEu8; k];
                        let res = guarded!(r.read_exact(&mut dst));
                        match res {
                            Ok(Ok(())) if k <= rem => {
                                if dst[..] != flat[..k] {
                                    return Err(f12("read_exact-bytes", format!("Reader::read_exact({}) delivered {:02x?}, want {:02x?}", k, dst, &flat[..k])));
                                }
                                m.advance(k);
                            }
                            Ok(Err(_)) if k > rem => {
                                // UnexpectedEof: everything available was consumed (std's contract leaves the amount unspecified, the
                                // default implementation drains); the sequence ends here
                                return Ok(false);
                            }
                            other => return Err(f12("read_exact", format!("Reader::read_exact({}) with {} bytes available: {:?}", k, rem, other.map(|r| r.map_err(|e| e.to_string())).map_err(|_| "panic")))),
                        }
                    }
                    3 => {
                        let mut st = String::from("ab");
                        let res = guarded!(r.read_to_string(&mut st));
                        let utf8 = std::str::from_utf8(&flat).is_ok();
                        match res {
                            Ok(Ok(n)) if utf8 => {
                                if n != rem || st.as_bytes()[..2] != *b"ab" || st.as_bytes()[2..] != flat[..] {
                                    return Err(f12("read_to_string", format!("Reader::read_to_string returned Ok({}) and {:?} with remaining {:02x?}", n, st, flat)));
                                }
                                m.advance(rem);
                            }
                            Ok(Err(_)) if !utf8 => return Ok(false),
                            other => return Err(f12("read_to_string", format!("Reader::read_to_string (rest is UTF-8: {}) gave {:?}", utf8, other.map(|r| r.map_err(|e| e.to_string())).map_err(|_| "panic")))),
                        }
                    }
                    4 => {
                        let res = guarded!({
                            let mut out = vec![];
                            for b in std::io::Read::by_ref(r).bytes() {
                                match b {
                                    Ok(x) => out.push(x),
                                    Err(_) => break,
                                }
                                if out.len() > rem + 2 {
                                    break;
                                }
                            }
                            out
                        });
                        match res {
                            Ok(out) if out == flat => m.advance(rem),
                            other => return Err(f12("reader-bytes-iter", format!("Read::bytes() over a Reader yielded {:?}, want {:02x?}", other.map_err(|_| "panic"), flat))),
                        }
                    }
                    _ => {
                        // mode 5: destination slices of 1 and 2 bytes; mode 6: of 2 and 1 (the first one longer than a one-byte chunk)
                        let (la, lb) = if mode == 5 { (1usize, 2usize) } else { (2, 1) };
                        let (mut a, mut b) = (vec![0xEEu8; la], vec![0xEEu8; lb]);
                        let res = guarded!({
                            let mut bufs = [std::io::IoSliceMut::new(&mut a), std::io::IoSliceMut::new(&mut b)];
                            r.read_vectored(&mut bufs)
                        });
                        match res {
                            Ok(Ok(n)) if n <= rem.min(3) && (n > 0 || rem == 0) => {
                                let mut got = a.clone();
                                got.extend_from_slice(&b);
                                if got[..n] != flat[..n] || got[n..].iter().any(|&x| x != 0xEE) {
                                    return Err(f12("read_vectored-bytes", format!("Reader::read_vectored returned {} and filled {:02x?}, want a prefix of {:02x?}", n, got, flat)));
                                }
                                m.advance(n);
                            }
                            other => return Err(f12("read_vectored", format!("Reader::read_vectored with {} bytes available: {:?}", rem, other.map(|r| r.map_err(|e| e.to_string())).map_err(|_| "panic")))),
                        }
                    }
                }
            }
        }
        Op::Consume(k) => {
            if let Root::Reader(r) = root {
                let fb = guarded!(r.fill_buf().map(|s| s.to_vec()));
                match fb {
                    Ok(Ok(s)) => {
                        if !flat.starts_with(&s) || (s.is_empty() && rem > 0) {
                            return Err(f12("fill_buf", format!("BufRead::fill_buf returned {:02x?} with remaining {:02x?}", s, flat)));
                        }
                        let k = k.min(s.len());
                        let c = guarded!(r.consume(k));
                        if c.is_err() {
                            return Err(f12("consume-panic", format!("BufRead::consume({}) after fill_buf of {} bytes panicked", k, s.len())));
                        }
                        m.advance(k);
                    }
                    other => return Err(f12("fill_buf", format!("BufRead::fill_buf failed: {:?}", other.map(|r| r.map(|v| v.len()).map_err(|e| e.to_string())).map_err(|_| "panic")))),
                }
            }
        }
        Op::IntoIter(_) | Op::Dismantle | Op::PokeInner | Op::RefillInner => return Ok(false),
    }
    Ok(true)
}

/// Terminal check: consume the tree through `IntoIter` and compare with the rest.
fn into_iter_check(root: Root, m: &M) -> Result<(), Fail> {
    let flat = m.flat();
    let t = match root {
        Root::Plain(t) => t,
        Root::Reader(r) => r.into_inner(),
    };
    let r = catch_unwind(AssertUnwindSafe(|| {
        let mut it = bytes::buf::IntoIter::new(t);
        let mut out = vec![];
        let mut hint_ok = true;
        loop {
            let (lo, hi) = it.size_hint();
            let want = flat.len() - out.len();
            if lo != want || hi != Some(want) {
                hint_ok = false;
            }
            match it.next() {
                Some(b) => out.push(b),
                None => break,
            }
            if out.len() > flat.len() + 4 {
                break;
            }
        }
        (out, hint_ok)
    }));
    match r {
        Ok((out, hint_ok)) => {
            if out != flat {
                return Err(f9("into_iter-bytes", format!("into_iter yielded {:02x?}, want {:02x?}", out, flat)));
            }
            if !hint_ok {
                return Err(f9("into_iter-hint", "IntoIter::size_hint is not (remaining, Some(remaining))".into()));
            }
            Ok(())
        }
        Err(_) => Err(f9("into_iter-panic", "into_iter panicked".into())),
    }
}

pub const N_ITER_MODES: u8 = 9;
/// What an iterator adaptor chain yields, written down as bytes (None = 0xFE marker) so that the crate's
/// IntoIter and a plain `Vec<u8>` iterator can be compared.
fn iter_mode<I: Iterator<Item = u8>>(mut it: I, mode: u8, rem: usize) -> Vec<u8> {
    let opt = |o: Option<u8>| -> Vec<u8> {
        match o {
            Some(b) => vec![1, b],
            None => vec![0xFE],
        }
    };
    match mode {
        1 => {
            let mut v = opt(it.nth(rem + 1));
            v.extend(opt(it.next()));
            v
        }
        2 => {
            let mut v = opt(it.nth(rem));
            v.extend(opt(it.next()));
            v
        }
        3 => {
            let mut v = opt(it.nth(rem.saturating_sub(1)));
            v.extend(opt(it.next()));
            v
        }
        4 => {
            let mut v = opt(it.nth(0));
            v.extend(opt(it.nth(1)));
            v.extend(it);
            v
        }
        5 => it.skip(rem + 1).collect(),
        6 => it.skip(1).step_by(2).collect(),
        7 => it.step_by(3).collect(),
        8 => opt(it.last()),
        _ => vec![it.count() as u8],
    }
}

/// Terminal check: iterator adaptors on the crate's IntoIter behave like those on the flat byte sequence.
fn into_iter_adaptors(root: Root, m: &M, mode: u8) -> Result<(), Fail> {
    let flat = m.flat();
    let t = match root {
        Root::Plain(t) => t,
        Root::Reader(r) => r.into_inner(),
    };
    let rem = flat.len();
    if mode == N_ITER_MODES + 1 {
        // next(), then the inner buffer consumed behind the iterator's back through IntoIter::get_mut(), then the rest:
        // whatever the iterator remembers about its buffer must not outlive a mutable access to it
        let r = catch_unwind(AssertUnwindSafe(|| {
            let mut it = bytes::buf::IntoIter::new(t);
            let mut got = vec![];
            if let Some(b) = it.next() {
                got.push(b);
            }
            let left = it.get_ref().remaining();
            let skip = left.min(1);
            it.get_mut().advance(skip);
            let (lo, hi) = it.size_hint();
            let rest: Vec<u8> = it.collect();
            (got, skip, rest, lo, hi)
        }));
        return match r {
            Ok((got, skip, rest, lo, hi)) => {
                let mut want_rest = flat.clone();
                let first: Vec<u8> = want_rest.drain(..rem.min(1)).collect();
                let want_rest: Vec<u8> = want_rest.into_iter().skip(skip).collect();
                if got != first || rest != want_rest || lo != want_rest.len() || hi != Some(want_rest.len()) {
                    Err(f9("into_iter-get_mut", format!("next(), get_mut().advance({}), then the rest: yielded {:02x?} then {:02x?} (size_hint ({}, {:?})), want {:02x?} then {:02x?}", skip, got, rest, lo, hi, first, want_rest)))
                } else {
                    Ok(())
                }
            }
            Err(_) => Err(f9("into_iter-get_mut-panic", format!("next(), get_mut().advance(1), then iterating to the end panicked with {} bytes at the start", rem))),
        };
    }
    let want = iter_mode(flat.clone().into_iter(), mode, flat.len());
    let r = catch_unwind(AssertUnwindSafe(|| iter_mode(bytes::buf::IntoIter::new(t), mode, rem)));
    match r {
        Ok(got) if got == want => Ok(()),
        Ok(got) => Err(f9("into_iter-adaptor", format!("iterator adaptor chain #{} over into_iter yielded {:02x?}, over the flat bytes {:02x?}", mode, got, want))),
        Err(_) => Err(f9("into_iter-adaptor-panic", format!("iterator adaptor chain #{} (nth / skip / step_by / last / count) over into_iter panicked with {} bytes left", mode, rem))),
    }
}

fn ks(rem: usize) -> Vec<usize> {
    let mut v = vec![0, 1, 2, rem.saturating_sub(1), rem, rem + 1];
    v.sort();
    v.dedup();
    v
}

fn ops_at(root_is_take: bool, reader: bool, rem: usize, cur_limit: Option<usize>) -> Vec<Op> {
    let mut v = vec![];
    for k in ks(rem) {
        v.push(Op::Advance(k));
    }
    for k in ks(rem) {
        v.push(Op::CopyToSlice(k));
        v.push(Op::TryCopyToSlice(k));
        v.push(Op::CopyToBytes(k));
    }
    v.push(Op::GetU8);
    if root_is_take {
        if let Some(l) = cur_limit {
            let mut ls = vec![0usize, 1, l.saturating_sub(1), l.saturating_add(1), rem + 2, usize::MAX];
            ls.sort();
            ls.dedup();
            for x in ls {
                if x != l {
                    v.push(Op::SetLimit(x));
                }
            }
        }
    }
    if reader {
        for k in ks(rem) {
            v.push(Op::Read(k));
            v.push(Op::Consume(k));
        }
        for mode in 0..7u8 {
            v.push(Op::ReadMore(mode));
        }
    }
    for mode in 0..=(if reader { 0 } else { N_ITER_MODES + 1 }) {
        v.push(Op::IntoIter(mode));
    }
    v.push(Op::Dismantle);
    v.push(Op::PokeInner);
    v.push(Op::RefillInner);
    v
}

/// Execute one (spec, reader?, op sequence) from scratch. Returns the list of operations
/// enabled at the state reached (empty if the sequence ended) for the DFS driver.
pub fn run_sequence(spec: &Spec, reader: bool, seq: &[Op], parity_odd: bool, stats: &mut Stats) -> Result<Vec<Op>, Fail> {
    run_sequence_inner(spec, reader, seq, parity_odd, stats, true)
}

/// `tracked = false` is the warm-up mode: same code path, allocator not armed, so that
/// one-time lazy allocations of the runtime happen outside any tracked execution.
pub fn run_sequence_inner(spec: &Spec, reader: bool, seq: &[Op], parity_odd: bool, stats: &mut Stats, tracked: bool) -> Result<Vec<Op>, Fail> {
    oracle::sys::set_crash_note(&format!("cursor tree={:?} reader={} ops={:?}", spec, reader, seq));
    if tracked {
        oracle::begin_execution(parity_odd);
    }
    stats.execs += 1;
    let res = oracle::subject(|| catch_unwind(AssertUnwindSafe(|| -> Result<Option<(bool, usize, Option<usize>)>, Fail> {
        let (t, mut m) = build(spec);
        let mut root = if reader { Root::Reader(t.reader()) } else { Root::Plain(t) };
        observe(&root, &m, stats)?;
        let mut cont = true;
        for (i, op) in seq.iter().enumerate() {
            if let Op::Dismantle = op {
                let t = match root {
                    Root::Plain(t) => t,
                    Root::Reader(r) => r.into_inner(),
                };
                dismantle(t, &m).map_err(|e| f12("into_inner", e))?;
                return Ok(None);
            }
            if let Op::PokeInner = op {
                if poke(root.tree_mut(), &mut m) {
                    observe(&root, &m, stats).map_err(|mut f| {
                        f.msg = format!("after advancing the innermost buffer by one byte through get_mut()/first_mut()/last_mut(): {}", f.msg);
                        f
                    })?;
                }
                return Ok(None);
            }
            if let Op::RefillInner = op {
                if !refill(root.tree_mut(), &mut m) {
                    return Ok(None);
                }
                observe(&root, &m, stats).map_err(|mut f| {
                    f.msg = format!("after giving the first half of the Chain two more bytes through first_mut(): {}", f.msg);
                    f
                })?;
                continue;
            }
            if let Op::IntoIter(mode) = op {
                if *mode == 0 {
                    into_iter_check(root, &m)?;
                } else {
                    into_iter_adaptors(root, &m, *mode)?;
                }
                return Ok(None);
            }
            cont = apply(&mut root, &mut m, *op, stats)?;
            if !cont {
                debug_assert!(i + 1 == seq.len());
                break;
            }
            observe(&root, &m, stats)?;
        }
        if !cont {
            return Ok(None);
        }
        let lim = if let M::Take(_, l) = &m { Some(*l) } else { None };
        let is_take = matches!(root.tree(), Tree::Take(_));
        Ok(Some((is_take, m.len(), lim)))
    })));
    // a panic outside the guarded operations (an observer such as remaining/chunk/chunks_vectored,
    // or building / dropping the tree) is a violation, not a harness failure
    let res = match res {
        Ok(r) => r,
        Err(_) => Err(f9("unexpected-panic", "a non-consuming observation (remaining/chunk/chunks_vectored/get_ref) or construction/drop panicked".into())),
    };
    // the list of enabled operations is harness data: build it outside the window
    let res = res.map(|o| match o {
        Some((is_take, rem, lim)) => ops_at(is_take, reader, rem, lim),
        None => vec![],
    });
    if !tracked {
        return res;
    }
    let end = oracle::end_execution();
    let res = res?;
    if let Some(v) = oracle::take_violation() {
        return Err(Fail { property: "C02", case: "memory".into(), msg: v });
    }
    if let Some(c) = end.corrupt {
        return Err(Fail { property: "C02", case: "memory".into(), msg: c });
    }
    if !end.leaked.is_empty() {
        return Err(Fail { property: "C03", case: "leak".into(), msg: format!("blocks leaked: {:?}", end.leaked) });
    }
    Ok(res)
}

// ------------------------------------------------------------------ tree enumeration

fn payload(n: usize, base: u8) -> Vec<u8> {
    (0..n).map(|i| base.wrapping_add(i as u8)).collect()
}

/// Leaves holding exactly `d` (every leaf type; several representations).
pub fn leaves(d: &[u8], rich: bool) -> Vec<Spec> {
    let mut v = vec![Spec::Slice(d.to_vec())];
    let breps: &[u8] = if rich { &[0, 1, 2, 3, 4] } else { &[1, 4] };
    for &r in breps {
        v.push(Spec::Bytes(r, d.to_vec()));
    }
    let mreps: &[u8] = if rich { &[0, 1, 2, 3, 4] } else { &[2, 3] };
    for &r in mreps {
        v.push(Spec::BytesMut(r, d.to_vec()));
    }
    // cursor at position p over [junk p][d]; and (for empty d) past the end
    v.push(Spec::Cursor(d.to_vec(), 0));
    let mut pre = vec![0xC0, 0xC1];
    pre.extend_from_slice(d);
    v.push(Spec::Cursor(pre, 2));
    if d.is_empty() {
        v.push(Spec::Cursor(vec![1, 2], 3));
        v.push(Spec::Cursor(vec![], u64::MAX));
    }
    // deque: contiguous and every wrap position
    let cap = d.len().max(1) + 1;
    if rich {
        for head in 0..cap {
            v.push(Spec::Deque(cap, head, d.to_vec()));
        }
    } else {
        v.push(Spec::Deque(cap, 0, d.to_vec()));
        if d.len() >= 2 {
            v.push(Spec::Deque(cap, cap - 1, d.to_vec()));
        }
    }
    // fragmentations: every split into 2 chunks, and into 3 for rich
    if d.len() >= 2 {
        for i in 1..d.len() {
            v.push(Spec::Frag(vec![d[..i].to_vec(), d[i..].to_vec()]));
            if rich || i == 1 {
                v.push(Spec::FragV(vec![d[..i].to_vec(), d[i..].to_vec()]));
            }
            if rich {
                for j in i + 1..d.len() {
                    v.push(Spec::Frag(vec![d[..i].to_vec(), d[i..j].to_vec(), d[j..].to_vec()]));
                }
            }
        }
    }
    v
}

fn limits(rem: usize) -> Vec<usize> {
    let mut v = vec![0, 1, rem.saturating_sub(1), rem, rem + 1, usize::MAX];
    v.sort();
    v.dedup();
    v
}

fn spec_len(s: &Spec) -> usize {
    match s {
        Spec::Slice(d) | Spec::Bytes(_, d) | Spec::BytesMut(_, d) | Spec::Deque(_, _, d) => d.len(),
        Spec::Cursor(d, p) => d.len().saturating_sub(*p as usize),
        Spec::Frag(c) | Spec::FragV(c) | Spec::Burst(c, _) => c.iter().map(|x| x.len()).sum(),
        Spec::Take(i, l) => spec_len(i).min(*l),
        Spec::Chain(a, b) => spec_len(a) + spec_len(b),
        Spec::Ref(i) | Spec::Dyn(i) => spec_len(i),
    }
}

/// All ways to wrap `s` in up to `u` unary adapters.
fn wraps(s: &Spec, u: usize, out: &mut Vec<Spec>) {
    out.push(s.clone());
    if u == 0 {
        return;
    }
    let mut next = vec![Spec::Ref(Box::new(s.clone())), Spec::Dyn(Box::new(s.clone()))];
    for l in limits(spec_len(s)) {
        next.push(Spec::Take(Box::new(s.clone()), l));
    }
    for n in next {
        wraps(&n, u - 1, out);
    }
}

pub struct Bounds {
    pub max_payload: usize,
    pub unary_single: usize,
    pub unary_chain_leaf: usize,
    pub unary_chain_top: usize,
    pub three_leaves: bool,
    pub max_payload_chain: usize,
    pub rich_leaves: bool,
    pub depth: usize,
    pub depth_chain: usize,
}

pub fn bounds(tier: &str) -> Bounds {
    if tier == "mini" {
        // reduced set for the cross-profile comparison of C16
        return Bounds { max_payload_chain: 2, max_payload: 3, unary_single: 1, unary_chain_leaf: 0, unary_chain_top: 1, three_leaves: false, rich_leaves: false, depth: 2, depth_chain: 2 };
    }
    if tier == "thorough" {
        // (measured: ~690 000 trees; payload 6 with three unary adapters and two on top of chains was 17.9 million trees,
        // which no tier can finish)
        Bounds { max_payload_chain: 5, max_payload: 6, unary_single: 2, unary_chain_leaf: 1, unary_chain_top: 1, three_leaves: true, rich_leaves: true, depth: 3, depth_chain: 2 }
    } else {
        Bounds { max_payload_chain: 3, max_payload: 4, unary_single: 2, unary_chain_leaf: 1, unary_chain_top: 1, three_leaves: false, rich_leaves: false, depth: 2, depth_chain: 2 }
    }
}

/// Enumerate the tree specs of this tier: (spec, op-depth).
/// The trees of this tier whose index is `shard` modulo `nshards` (only those are materialised), and the
/// total number of trees of the tier.
pub fn enumerate_shard(b: &Bounds, shard: usize, nshards: usize) -> (Vec<(Spec, usize)>, usize) {
    struct Out {
        v: Vec<(Spec, usize)>,
        idx: usize,
        shard: usize,
        nshards: usize,
    }
    impl Out {
        fn push(&mut self, x: (Spec, usize)) {
            if self.idx % self.nshards == self.shard {
                self.v.push(x);
            }
            self.idx += 1;
        }
    }
    let mut out = Out { v: vec![], idx: 0, shard, nshards };
    // one leaf, up to `unary_single` adapters
    for n in 0..=b.max_payload {
        for l in leaves(&payload(n, 0x10), true) {
            let mut w = vec![];
            wraps(&l, b.unary_single, &mut w);
            for s in w {
                out.push((s, b.depth));
            }
        }
    }
    // two leaves
    for n in 0..=b.max_payload_chain {
        for na in 0..=n {
            let da = payload(na, 0x10);
            let db = payload(n - na, 0x40);
            // the rich leaf kinds (every ring-buffer wrap position, 3-way fragmentations, ...) and adapters on
            // the second half multiply the count by ~6: they are used for payloads up to 3
            let rich = b.rich_leaves && n <= 3;
            for la in leaves(&da, rich) {
                let mut wa = vec![];
                wraps(&la, b.unary_chain_leaf, &mut wa);
                for lb in leaves(&db, false) {
                    let mut wb = vec![];
                    wraps(&lb, if rich { b.unary_chain_leaf } else { 0 }, &mut wb);
                    for a in &wa {
                        for bb in &wb {
                            let c = Spec::Chain(Box::new(a.clone()), Box::new(bb.clone()));
                            let mut wc = vec![];
                            wraps(&c, b.unary_chain_top, &mut wc);
                            for s in wc {
                                out.push((s, b.depth_chain));
                            }
                        }
                    }
                }
            }
        }
    }
    // three leaves: both association orders, plain leaves of a few kinds, one top adapter
    if b.three_leaves {
        let n = b.max_payload.min(5);
        for na in 0..=n {
            for nb in 0..=(n - na) {
                let nc = n - na - nb;
                let (da, db, dc) = (payload(na, 0x10), payload(nb, 0x40), payload(nc, 0x70));
                for la in leaves(&da, false) {
                    for lb in leaves(&db, false) {
                        for lc in [Spec::Slice(dc.clone()), Spec::Bytes(4, dc.clone()), Spec::Deque(dc.len() + 2, dc.len() + 1, dc.clone())] {
                            let left = Spec::Chain(Box::new(Spec::Chain(Box::new(la.clone()), Box::new(lb.clone()))), Box::new(lc.clone()));
                            let right = Spec::Chain(Box::new(la.clone()), Box::new(Spec::Chain(Box::new(lb.clone()), Box::new(lc.clone()))));
                            for c in [left, right] {
                                let mut wc = vec![];
                                wraps(&c, 1, &mut wc);
                                for s in wc {
                                    out.push((s, 2));
                                }
                            }
                        }
                    }
                }
            }
        }
    }
    // many-chunk buffers behind Take and Chain (the 16-slice scratch array of Take)
    // 20 chunks; the 17th and the 19th are longer than one byte so that "one slice too many" and
    // "cut at the wrong slice" change the number of bytes exposed
    let many: Vec<Vec<u8>> = (0..20usize).map(|i| (0..(if i == 16 { 3 } else if i == 18 { 2 } else { 1 })).map(|j| 0x80 + (i * 3 + j) as u8).collect()).collect();
    let total: usize = many.iter().map(|c| c.len()).sum();
    // the same bytes as a left-nested Chain of plain slices (crate types only)
    let mut nested = Spec::Slice(many[0].clone());
    for c in &many[1..] {
        nested = Spec::Chain(Box::new(nested), Box::new(Spec::Slice(c.clone())));
    }
    for inner in [Spec::FragV(many.clone()), Spec::Frag(many.clone()), nested] {
        for l in [5usize, 16, 17, 18, 19, 20, 21, total - 1, total, usize::MAX] {
            let t = Spec::Take(Box::new(inner.clone()), l);
            out.push((t.clone(), 1));
            out.push((Spec::Chain(Box::new(t), Box::new(Spec::Slice(vec![0xF0, 0xF1]))), 1));
        }
        out.push((Spec::Chain(Box::new(inner.clone()), Box::new(Spec::Slice(vec![0xF0, 0xF1]))), 1));
    }
    // text with multi-byte characters cut by every chunk / leaf boundary (Reader::read_to_string must decode the
    // sequence, not the chunks), and limits that cut a character in the middle (must fail, whole or in chunks)
    let txt: Vec<u8> = "a\u{e9}\u{20ac}z".as_bytes().to_vec();
    for cut in 1..txt.len() {
        let (x, y) = (txt[..cut].to_vec(), txt[cut..].to_vec());
        let chain = Spec::Chain(Box::new(Spec::Slice(x.clone())), Box::new(Spec::Bytes(1, y.clone())));
        out.push((chain.clone(), 1));
        out.push((Spec::Frag(vec![x.clone(), y.clone()]), 1));
        out.push((Spec::Deque(txt.len(), txt.len() - cut, txt.clone()), 1));
        out.push((Spec::Take(Box::new(chain), cut + 1), 1));
        out.push((Spec::Take(Box::new(Spec::Slice(txt.clone())), cut), 1));
    }
    out.push((Spec::Frag(txt.iter().map(|&b| vec![b]).collect()), 1));
    let total = out.idx;
    (out.v, total)
}

fn spec_kind_sig(s: &Spec, out: &mut String) {
    match s {
        Spec::Slice(_) => out.push('s'),
        Spec::Bytes(r, _) => {
            out.push('b');
            out.push((b'0' + r) as char)
        }
        Spec::BytesMut(r, _) => {
            out.push('m');
            out.push((b'0' + r) as char)
        }
        Spec::Cursor(..) => out.push('c'),
        Spec::Deque(..) => out.push('q'),
        Spec::Frag(_) => out.push('f'),
        Spec::FragV(_) => out.push('v'),
        Spec::Burst(..) => out.push('u'),
        Spec::Take(i, _) => {
            out.push_str("T(");
            spec_kind_sig(i, out);
            out.push(')')
        }
        Spec::Chain(a, b) => {
            out.push_str("C(");
            spec_kind_sig(a, out);
            out.push(',');
            spec_kind_sig(b, out);
            out.push(')')
        }
        Spec::Ref(i) => {
            out.push_str("R(");
            spec_kind_sig(i, out);
            out.push(')')
        }
        Spec::Dyn(i) => {
            out.push_str("D(");
            spec_kind_sig(i, out);
            out.push(')')
        }
    }
}

/// An endless source: remaining() is usize::MAX for ever (a lawful stream in the sense of the
/// adapters: chunk() is never empty, advance never fails). Chained behind a finite header the
/// total length saturates; Take and Reader must still bound and order exactly.
pub struct Endless;
pub static PATTERN: [u8; 8] = [0xD0, 0xD1, 0xD2, 0xD3, 0xD4, 0xD5, 0xD6, 0xD7];
impl Buf for Endless {
    fn remaining(&self) -> usize {
        usize::MAX
    }
    fn chunk(&self) -> &[u8] {
        &PATTERN
    }
    fn advance(&mut self, _cnt: usize) {}
}

fn endless_cases(rep: &mut Report) -> u64 {
    let mut n = 0u64;
    let hdr: &'static [u8] = &[1, 2, 3];
    let mut check = |name: &str, f: &mut dyn FnMut() -> Result<(), String>| {
        n += 1;
        let r = catch_unwind(AssertUnwindSafe(|| f()));
        let msg = match r {
            Ok(Ok(())) => return,
            Ok(Err(m)) => m,
            Err(_) => "panicked".to_string(),
        };
        rep.violate("C12", &format!("endless:{}", name), &format!("header [1,2,3] chained before an endless source: {}: {}", name, msg), &format!("{{\"engine\":\"cursor\",\"case\":\"endless:{}\"}}", name));
    };
    check("chain-remaining", &mut || {
        let c = Buf::chain(hdr, Endless);
        if c.remaining() != usize::MAX {
            return Err(format!("Chain::remaining() = {}, want usize::MAX (saturating)", c.remaining()));
        }
        if !c.has_remaining() || c.chunk() != hdr {
            return Err("chunk() is not the header".into());
        }
        Ok(())
    });
    check("take-16", &mut || {
        let mut t = Buf::chain(hdr, Endless).take(16);
        if t.remaining() != 16 {
            return Err(format!("take(16).remaining() = {}", t.remaining()));
        }
        let mut d = [0u8; 16];
        t.copy_to_slice(&mut d);
        if d[..3] != [1, 2, 3] || d[3..11] != PATTERN {
            return Err(format!("take(16) delivered {:02x?}", d));
        }
        if t.remaining() != 0 || t.limit() != 0 || t.get_ref().first_ref().len() != 0 {
            return Err(format!("after reading 16: remaining {} limit {}", t.remaining(), t.limit()));
        }
        Ok(())
    });
    check("reader", &mut || {
        let mut r = Buf::chain(hdr, Endless).reader();
        let mut d = [0u8; 8];
        let k = r.read(&mut d).map_err(|e| e.to_string())?;
        if k != 8 || d[..3] != [1, 2, 3] || d[3..] != PATTERN[..5] {
            return Err(format!("Reader::read(8) returned {} bytes {:02x?}", k, d));
        }
        let mut e = [0u8; 4];
        r.read_exact(&mut e).map_err(|e| format!("read_exact failed: {}", e))?;
        Ok(())
    });
    check("take-then-reader-bufread", &mut || {
        let mut r = Buf::chain(hdr, Endless).take(5).reader();
        let fb = r.fill_buf().map_err(|e| e.to_string())?.to_vec();
        if fb != hdr {
            return Err(format!("fill_buf = {:02x?}", fb));
        }
        r.consume(3);
        let mut rest = vec![];
        r.read_to_end(&mut rest).map_err(|e| e.to_string())?;
        if rest != PATTERN[..2] {
            return Err(format!("after the header take(5) delivered {:02x?}", rest));
        }
        Ok(())
    });
    check("copy_to_bytes-across", &mut || {
        let mut c = Buf::chain(hdr, Endless);
        let b = c.copy_to_bytes(6);
        if b[..] != [1, 2, 3, 0xD0, 0xD1, 0xD2] {
            return Err(format!("copy_to_bytes(6) = {:02x?}", &b[..]));
        }
        Ok(())
    });
    n
}

pub fn run(tier: &str, parity_odd: bool, shard: usize, nshards: usize, prop: &str, rep: &mut Report) {
    let mut b = bounds(tier);
    if prop == "C12" && tier == "thorough" {
        // the Reader alphabet is three times as large: plain leaf kinds in chains
        b.rich_leaves = false;
        b.max_payload_chain = 4;
    }
    let (specs, total_trees) = enumerate_shard(&b, shard, nshards);
    let mut stats = Stats::default();
    let mut shapes: BTreeSet<String> = BTreeSet::new();
    let mut trees = 0u64;
    let mut seqs = 0u64;
    let mut maxdepth = 0usize;
    // warm-up (untracked): one pass over a spread of trees and first-level operations
    {
        let mut ws = Stats::default();
        for (spec, _) in specs.iter().step_by((specs.len() / 300).max(1)) {
            for reader in [false, true] {
                if let Ok(next) = run_sequence_inner(spec, reader, &[], parity_odd, &mut ws, false) {
                    for op in next {
                        let _ = run_sequence_inner(spec, reader, &[op], parity_odd, &mut ws, false);
                    }
                }
            }
        }
    }
    for (spec, depth) in specs.iter() {
        trees += 1;
        if rep.saturated() {
            rep.exhaustive = false;
            rep.caps.push("stopped after 12 distinct violations".into());
            break;
        }
        let mut sig = String::new();
        spec_kind_sig(spec, &mut sig);
        shapes.insert(sig);
        let readers: &[bool] = if prop == "C09" { &[false] } else { &[true, false] };
        for &reader in readers {
            if prop == "C12" && !reader && !matches!(spec, Spec::Take(..)) {
                continue; // plain non-Take roots are the C09 run
            }
            let mut stack: Vec<Vec<Op>> = vec![vec![]];
            while let Some(seq) = stack.pop() {
                seqs += 1;
                maxdepth = maxdepth.max(seq.len());
                match run_sequence(spec, reader, &seq, parity_odd, &mut stats) {
                    Ok(next) => {
                        if seq.len() < *depth {
                            for op in next {
                                if !reader && matches!(op, Op::Read(_) | Op::Consume(_)) {
                                    continue;
                                }
                                // the rarer provided io::Read methods and the terminal structure checks after an
                                // operation only in the thorough tier (from the initial state always)
                                if tier != "thorough" && !seq.is_empty() && matches!(op, Op::ReadMore(3) | Op::ReadMore(4) | Op::ReadMore(5) | Op::ReadMore(6) | Op::PokeInner) {
                                    continue;
                                }
                                let mut s2 = seq.clone();
                                s2.push(op);
                                stack.push(s2);
                            }
                        }
                    }
                    Err(f) => {
                        let replay = format!(
                            "{{\"engine\":\"cursor\",\"spec\":{},\"reader\":{},\"ops\":{},\"parity\":{}}}",
                            oracle::report::jstr(&format!("{:?}", spec)),
                            reader,
                            oracle::report::jstr(&format!("{:?}", seq)),
                            oracle::report::jstr(if parity_odd { "odd" } else { "even" })
                        );
                        let mut sig = String::new();
                        spec_kind_sig(spec, &mut sig);
                        let msg = format!("{} | tree {:?} reader={} after ops {:?}", f.msg, spec, reader, seq);
                        rep.violate(f.property, &f.case, &msg, &replay);
                        // a wrong result on a tree that contains an adapter means the adapter did not bound / order
                        // as documented: that is a C12 violation as well as a C09 one
                        if f.property == "C09" && (reader || sig.contains("T(") || sig.contains("C(")) {
                            rep.violate("C12", &f.case, &msg, &replay);
                        }
                    }
                }
                if seqs % 200_000 == 1 && rep.samples.len() < 6 {
                    rep.sample(format!("tree {:?} reader={} ops {:?}", spec, reader, seq));
                }
            }
        }
    }
    if shard == 0 {
        let n = oracle::subject(|| endless_cases(rep));
        stats.execs += n;
        rep.extra_num("endless_source_cases", n);
    }
    rep.states = seqs;
    rep.transitions = stats.steps;
    rep.traces = stats.execs;
    rep.evaluations = stats.execs;
    rep.distinct_nontrivial = trees;
    rep.extra_num("trees", trees);
    rep.extra_num("trees_of_tier_all_shards", total_trees as u64);
    rep.extra_num("tree_shapes", shapes.len() as u64);
    rep.extra_num("op_sequences", seqs);
    rep.extra_num("max_op_depth", maxdepth as u64);
    rep.extra_num("vectored_calls", stats.vectored);
    rep.extra_num("vectored_multi_slice_results", stats.multi_slice);
    rep.extra_num("expected_panics_checked", stats.panics_expected);
    rep.extra_num("buf_methods_forwarded", N_BUF_METHODS_FORWARDED as u64);
    let _ = (BufMut::remaining_mut as fn(&Vec<u8>) -> usize, BYTES_REPS, BYTESMUT_REPS);
}
