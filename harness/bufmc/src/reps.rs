//! Builders for every backing representation of `Bytes` / `BytesMut` holding given contents.
use bytes::{Buf, Bytes, BytesMut};

pub fn leak(x: &[u8]) -> &'static [u8] {
    oracle::harness(|| Box::leak(x.to_vec().into_boxed_slice()))
}

const P: u8 = 0x5a; // padding byte outside the view

/// (name, handle) for every representation that can hold `x`. Must be called inside
/// an armed execution; opens the subject window itself.
pub fn bytes_reps(x: &[u8]) -> Vec<(&'static str, Bytes)> {
    let n = x.len();
    let st = leak(x);
    let mut out: Vec<(&'static str, Bytes)> = Vec::new();
    let mut push = |name: &'static str, b: Bytes| oracle::harness(|| out.push((name, b)));
    oracle::subject(|| {
        push("static", Bytes::from_static(st));
        push("vec_exact", Bytes::from(x.to_vec()));
        {
            let b = Bytes::from(x.to_vec());
            let c = b.clone();
            drop(c);
            push("vec_exact_promoted", b);
        }
        {
            let mut v = Vec::with_capacity(n + 3);
            v.extend_from_slice(x);
            push("vec_spare_shared", Bytes::from(v));
        }
        push("owner", Bytes::from_owner(x.to_vec()));
        push("copy_from_slice", Bytes::copy_from_slice(x));
        push("frozen_inline", BytesMut::from(x).freeze());
        {
            let mut v = x.to_vec();
            v.push(P);
            let mut m = BytesMut::from(&v[..]);
            let head = m.split_to(n);
            push("frozen_shared", head.freeze());
        }
        {
            let mut v = vec![P];
            v.extend_from_slice(x);
            v.push(P);
            push("offset_view", Bytes::from(v).slice(1..1 + n));
        }
        {
            let mut v = vec![P, P];
            v.extend_from_slice(x);
            let mut m = BytesMut::from(&v[..]);
            m.advance(2);
            push("frozen_advanced", m.freeze());
        }
        {
            let mut v = vec![P];
            v.extend_from_slice(x);
            let mut b = Bytes::from_owner(v);
            b.advance(1);
            push("owner_advanced", b);
        }
    });
    out
}

pub fn bytesmut_reps(x: &[u8]) -> Vec<(&'static str, BytesMut)> {
    let n = x.len();
    let mut out: Vec<(&'static str, BytesMut)> = Vec::new();
    let mut push = |name: &'static str, b: BytesMut| oracle::harness(|| out.push((name, b)));
    oracle::subject(|| {
        push("inline", BytesMut::from(x));
        {
            let mut v = vec![P];
            v.extend_from_slice(x);
            let mut m = BytesMut::from(&v[..]);
            m.advance(1);
            push("inline_offset", m);
        }
        {
            let mut v = x.to_vec();
            v.push(P);
            let mut m = BytesMut::from(&v[..]);
            let tail = m.split_off(n);
            drop(tail);
            push("shared", m);
        }
        {
            let mut v = vec![P];
            v.extend_from_slice(x);
            v.push(P);
            let mut m = BytesMut::from(&v[..]);
            let head = m.split_to(1);
            let tail = m.split_off(n);
            push("shared_offset_pinned", m);
            drop(head);
            drop(tail);
        }
        {
            let mut m = BytesMut::with_capacity(n + 5);
            m.extend_from_slice(x);
            push("with_spare", m);
        }
    });
    out
}
