//! Engine D (DESIGN.md §3 C14, C15): complete finite input universes x every impl x every
//! representation, compared with `[u8]` semantics / independent parsers.
use crate::reps::{bytes_reps, bytesmut_reps, leak};
use bytes::{Buf, Bytes, BytesMut};
use oracle::report::Report;
use std::borrow::Borrow;
use std::cmp::Ordering;
use std::collections::{BTreeSet, HashMap};
use std::hash::{Hash, Hasher};

// ------------------------------------------------------------------ C14

/// Hasher that records the exact sequence of write calls, so "hash equals that of the
/// borrowed [u8]" is checked for *every* Hasher, not only for one hash function.
#[derive(Default, PartialEq, Eq, Debug)]
struct Rec(Vec<(u8, Vec<u8>)>);
impl Hasher for Rec {
    fn finish(&self) -> u64 {
        0
    }
    fn write(&mut self, b: &[u8]) {
        self.0.push((0, b.to_vec()));
    }
    fn write_u8(&mut self, i: u8) {
        self.0.push((1, vec![i]));
    }
    fn write_usize(&mut self, i: usize) {
        self.0.push((8, i.to_le_bytes().to_vec()));
    }
    fn write_u32(&mut self, i: u32) {
        self.0.push((4, i.to_le_bytes().to_vec()));
    }
    fn write_u64(&mut self, i: u64) {
        self.0.push((9, i.to_le_bytes().to_vec()));
    }
}
fn rec<T: Hash + ?Sized>(t: &T) -> Rec {
    let mut r = Rec::default();
    t.hash(&mut r);
    r
}

struct Ctx<'a> {
    rep: &'a mut Report,
    rows: BTreeSet<String>,
    outcomes: BTreeSet<(bool, Option<Ordering>)>,
    pair: String,
}

impl<'a> Ctx<'a> {
    fn fail(&mut self, row: &str, what: &str, got: String, want: String) {
        let case = format!("{}:{}", row, what);
        let msg = format!("{} {} (first failing pair {}; lhs is the first type named): got {}, want {}", row, what, self.pair, got, want);
        let replay = format!(
            "{{\"engine\":\"table\",\"row\":{},\"op\":{},\"pair\":{}}}",
            oracle::report::jstr(row),
            oracle::report::jstr(what),
            oracle::report::jstr(&self.pair)
        );
        self.rep.violate("C14", &case, &msg, &replay);
    }

    /// All seven comparison operators of the impl `A: PartialOrd<B>` against slice semantics.
    fn ord<A: ?Sized + PartialOrd<B>, B: ?Sized>(&mut self, row: &str, a: &A, b: &B, xa: &[u8], xb: &[u8]) {
        self.rows.insert(row.to_string());
        self.rep.evaluations += 7;
        let want = xa.partial_cmp(xb);
        self.outcomes.insert((xa == xb, want));
        let got = oracle::subject(|| a.partial_cmp(b));
        if got != want {
            self.fail(row, "partial_cmp", format!("{:?}", got), format!("{:?}", want));
        }
        let checks: [(&str, bool, bool); 6] = oracle::subject(|| {
            [
                ("==", a == b, xa == xb),
                ("!=", a != b, xa != xb),
                ("<", a < b, xa < xb),
                ("<=", a <= b, xa <= xb),
                (">", a > b, xa > xb),
                (">=", a >= b, xa >= xb),
            ]
        });
        for (op, g, w) in checks.iter() {
            if g != w {
                self.fail(row, op, g.to_string(), w.to_string());
            }
        }
    }

    fn eq_only<A: ?Sized + PartialEq<B>, B: ?Sized>(&mut self, row: &str, a: &A, b: &B, xa: &[u8], xb: &[u8]) {
        self.rows.insert(row.to_string());
        self.rep.evaluations += 2;
        let (e, n) = oracle::subject(|| (a == b, a != b));
        if e != (xa == xb) {
            self.fail(row, "==", e.to_string(), (xa == xb).to_string());
        }
        if n != (xa != xb) {
            self.fail(row, "!=", n.to_string(), (xa != xb).to_string());
        }
    }
}

macro_rules! both_orders {
    ($cx:expr, $cty:literal, $c:expr, $xc:expr, $oty:literal, $o:expr, $xo:expr) => {
        $cx.ord(concat!($cty, " vs ", $oty), $c, $o, $xc, $xo);
        $cx.ord(concat!($oty, " vs ", $cty), $o, $c, $xo, $xc);
    };
}

fn universe(tier: &str) -> Vec<Vec<u8>> {
    // 00 and ff (ordering extremes), two ASCII letters, and the two bytes of a two-byte UTF-8 scalar
    // ("\u{e9}" = c3 a9): alone or in the wrong order they are invalid UTF-8, together they are a
    // non-ASCII str, so the str / String rows see non-ASCII text and the byte rows see non-UTF-8 data
    let alpha = [0x00u8, b'a', b'b', 0xc3, 0xa9, 0xff];
    let maxl = if tier == "thorough" { 4 } else { 3 };
    let mut v: Vec<Vec<u8>> = vec![vec![]];
    let mut level: Vec<Vec<u8>> = vec![vec![]];
    for _ in 0..maxl {
        let mut next = vec![];
        for s in &level {
            for &c in &alpha {
                let mut t = s.clone();
                t.push(c);
                next.push(t);
            }
        }
        v.extend(next.iter().cloned());
        level = next;
    }
    // prefix / extension families up to length 9 (incl. non-UTF-8)
    for base in [&b"ababababa"[..], &b"\x00\x00\x00\x00\x00\x00\x00\x00\x00"[..], &b"ab\xffab\xffab\xff"[..], &b"\xff\xff\xff\xff\xff\xff\xff\xff\xff"[..], &b"a\xc3\xa9a\xc3\xa9a\xc3\xa9"[..]] {
        for l in 4..=9 {
            v.push(base[..l].to_vec());
        }
    }
    // strings of 8..=24 bytes that differ from each other in TWO places of one 8-byte (16-byte) group, in opposite
    // directions (a word-at-a-time comparison that lets the wrong byte decide), and in one byte by >= 0x80 at a group
    // boundary (a comparison through a wrapped difference)
    for w in [
        &b"abcdefgh"[..], &b"abddefgg"[..], &b"abcdefghi"[..], &b"abddefggi"[..],
        &b"abcdefghijklmnop"[..], &b"abcEefghijklZnop"[..],
        &b"aaaaaaaaabcdefgh"[..], &b"aaaaaaaaabddefgg"[..],
        &b"\x00\x00\x00\x00\x00\x00\x00\x00"[..], &b"\x80\x00\x00\x00\x00\x00\x00\x00"[..], &b"\x01\xff\xff\xff\xff\xff\xff\x00"[..],
        &b"aaaaaaaa\x10aaaaaaa"[..], &b"aaaaaaaa\xf0aaaaaaa"[..],
    ] {
        v.push(w.to_vec());
    }
    v
}

pub fn run_c14(tier: &str, parity_odd: bool, shard: usize, nshards: usize, rep: &mut Report) {
    let uni = universe(tier);
    let full_reps = tier == "thorough";
    let mut cx = Ctx { rep, rows: BTreeSet::new(), outcomes: BTreeSet::new(), pair: String::new() };
    let mut pairs = 0u64;
    let mut rep_names: BTreeSet<&'static str> = BTreeSet::new();
    for (ix, x) in uni.iter().enumerate() {
        if ix % nshards != shard {
            continue;
        }
        for (iy, y) in uni.iter().enumerate() {
            let _ = (ix, iy);
            pairs += 1;
            oracle::begin_execution(parity_odd);
            let bx = bytes_reps(x);
            let by = bytes_reps(y);
            let mx = bytesmut_reps(x);
            let my = bytesmut_reps(y);
            let sx = std::str::from_utf8(x).ok();
            let sy = std::str::from_utf8(y).ok();
            let vy: Vec<u8> = y.clone();
            let vx: Vec<u8> = x.clone();
            cx.pair = format!("x={:02x?} y={:02x?}", x, y);
            oracle::sys::set_crash_note(&cx.pair);
            if pairs <= 3 || pairs % 1500 == 0 {
                let p = cx.pair.clone();
                cx.rep.sample(format!("{} x {} Bytes reps x {} BytesMut reps x all rows", p, bx.len(), mx.len()));
            }
            // --- crate type on the left holding x, every representation
            for (name, b) in bx.iter() {
                rep_names.insert(name);
                let b: &Bytes = b;
                both_orders!(cx, "Bytes", b, x, "[u8]", &y[..], y);
                both_orders!(cx, "Bytes", b, x, "&[u8]", &&y[..], y);
                both_orders!(cx, "Bytes", b, x, "Vec<u8>", &vy, y);
                if let Some(s) = sy {
                    let st = s.to_string();
                    both_orders!(cx, "Bytes", b, x, "str", s, y);
                    both_orders!(cx, "Bytes", b, x, "&str", &s, y);
                    both_orders!(cx, "Bytes", b, x, "String", &st, y);
                }
                // hashing / Borrow / Ord
                cx.rep.evaluations += 3;
                if oracle::subject(|| rec(b)) != rec(&x[..]) {
                    cx.fail("Hash for Bytes", "hash", "different write sequence".into(), "that of [u8]".into());
                }
                let bor: &[u8] = oracle::subject(|| b.borrow());
                if bor != &x[..] {
                    cx.fail("Borrow<[u8]> for Bytes", "borrow", format!("{:02x?}", bor), format!("{:02x?}", x));
                }
                cx.rows.insert("Hash for Bytes".into());
                cx.rows.insert("Borrow<[u8]> for Bytes".into());
                let _ = full_reps;
                {
                    for (n2, b2) in by.iter() {
                        let _ = n2;
                        cx.ord("Bytes vs Bytes", b, b2, x, y);
                        cx.rep.evaluations += 1;
                        if oracle::subject(|| b.cmp(b2)) != x.cmp(y) {
                            cx.fail("Ord for Bytes", "cmp", format!("{:?}", b.cmp(b2)), format!("{:?}", x.cmp(y)));
                        }
                        cx.rows.insert("Ord for Bytes".into());
                    }
                    for (_n2, m2) in my.iter() {
                        cx.eq_only("Bytes vs BytesMut (eq)", b, m2, x, y);
                        cx.eq_only("BytesMut vs Bytes (eq)", m2, b, y, x);
                    }
                }
            }
            // --- BytesMut on the left
            for (name, m) in mx.iter() {
                rep_names.insert(name);
                let m: &BytesMut = m;
                both_orders!(cx, "BytesMut", m, x, "[u8]", &y[..], y);
                both_orders!(cx, "BytesMut", m, x, "&[u8]", &&y[..], y);
                both_orders!(cx, "BytesMut", m, x, "Vec<u8>", &vy, y);
                if let Some(s) = sy {
                    let st = s.to_string();
                    both_orders!(cx, "BytesMut", m, x, "str", s, y);
                    both_orders!(cx, "BytesMut", m, x, "&str", &s, y);
                    both_orders!(cx, "BytesMut", m, x, "String", &st, y);
                }
                cx.rep.evaluations += 2;
                if oracle::subject(|| rec(m)) != rec(&x[..]) {
                    cx.fail("Hash for BytesMut", "hash", "different write sequence".into(), "that of [u8]".into());
                }
                let bor: &[u8] = oracle::subject(|| m.borrow());
                if bor != &x[..] {
                    cx.fail("Borrow<[u8]> for BytesMut", "borrow", format!("{:02x?}", bor), format!("{:02x?}", x));
                }
                cx.rows.insert("Hash for BytesMut".into());
                cx.rows.insert("Borrow<[u8]> for BytesMut".into());
                for (_n2, m2) in my.iter() {
                    cx.ord("BytesMut vs BytesMut", m, m2, x, y);
                    cx.rep.evaluations += 1;
                    if oracle::subject(|| m.cmp(m2)) != x.cmp(y) {
                        cx.fail("Ord for BytesMut", "cmp", format!("{:?}", m.cmp(m2)), format!("{:?}", x.cmp(y)));
                    }
                    cx.rows.insert("Ord for BytesMut".into());
                }
            }
            let _ = (&vx, sx);
            // --- aliased operands: y held as a *view into the very buffer that holds x*
            // (same start address with a different length, overlapping ranges, empty
            // handles that keep the buffer's address)
            if y.len() <= x.len() {
                for a in 0..=(x.len() - y.len()) {
                    if x[a..a + y.len()] != y[..] {
                        continue;
                    }
                    for (_name, b) in bx.iter() {
                        let b: &Bytes = b;
                        let views: Vec<Bytes> = oracle::subject(|| {
                            let mut v = vec![b.slice(a..a + y.len())];
                            let mut c = b.clone();
                            c.truncate(a + y.len());
                            c.advance(a);
                            v.push(c);
                            if y.is_empty() {
                                let mut c = b.clone();
                                // an empty handle that keeps an address inside the buffer
                                v.push(if a == 0 {
                                    c.split_to(0)
                                } else {
                                    c.truncate(a);
                                    c.split_off(a)
                                });
                            }
                            v
                        });
                        for yv in views.iter() {
                            cx.ord("Bytes vs Bytes (aliased views)", b, yv, x, y);
                            cx.ord("Bytes vs Bytes (aliased views)", yv, b, y, x);
                            cx.rep.evaluations += 2;
                            if oracle::subject(|| b.cmp(yv)) != x.cmp(y) {
                                cx.fail("Ord for Bytes (aliased views)", "cmp", format!("{:?}", b.cmp(yv)), format!("{:?}", x.cmp(y)));
                            }
                            if oracle::subject(|| rec(yv)) != rec(&y[..]) {
                                cx.fail("Hash for Bytes (aliased views)", "hash", "different write sequence".into(), "that of [u8]".into());
                            }
                            for (_n2, m2) in my.iter() {
                                cx.eq_only("Bytes view vs BytesMut (eq)", yv, m2, y, y);
                            }
                        }
                        oracle::subject(|| drop(views));
                    }
                    // BytesMut halves of one buffer: adjacent, never overlapping
                    if a == 0 && y.len() < x.len() {
                        let (head, tail) = oracle::subject(|| {
                            let mut m = BytesMut::from(&x[..]);
                            let head = m.split_to(y.len());
                            (head, m)
                        });
                        cx.ord("BytesMut vs BytesMut (split halves)", &head, &tail, y, &x[y.len()..]);
                        cx.ord("BytesMut vs BytesMut (split halves)", &tail, &head, &x[y.len()..], y);
                        let fh = oracle::subject(|| head.clone().freeze());
                        cx.eq_only("Bytes vs BytesMut (eq)", &fh, &tail, y, &x[y.len()..]);
                        oracle::subject(|| {
                            drop(fh);
                            drop(head);
                            drop(tail);
                        });
                    }
                }
            }
            // Borrow-keyed maps behave: a map keyed by the crate type is found by &[u8]
            if x == y {
                let mut hm: HashMap<Bytes, u8> = HashMap::new();
                hm.insert(bx[0].1.clone(), 1);
                cx.rep.evaluations += 1;
                if hm.get(&y[..]) != Some(&1) {
                    cx.fail("HashMap<Bytes,_>::get(&[u8])", "lookup", "None".into(), "Some".into());
                }
                let mut hm2: HashMap<BytesMut, u8> = HashMap::new();
                hm2.insert(mx[0].1.clone(), 1);
                if hm2.get(&y[..]) != Some(&1) {
                    cx.fail("HashMap<BytesMut,_>::get(&[u8])", "lookup", "None".into(), "Some".into());
                }
            }
            oracle::subject(|| {
                drop(bx);
                drop(by);
                drop(mx);
                drop(my);
            });
            let end = oracle::end_execution();
            if !end.leaked.is_empty() || end.corrupt.is_some() {
                let p = cx.pair.clone();
                cx.rep.violate("C14", "memory", &format!("ledger after comparing {}: {:?}", p, end), "");
            }
            if let Some(v) = oracle::take_violation() {
                cx.rep.violate("C14", "memory", &v, "");
            }
        }
    }
    // ---- long byte strings (size-dependent shortcuts: prefix-only hashing, windowed comparison ...)
    let mut long_pairs = 0u64;
    {
        let lens: &[usize] = if tier == "thorough" { &[255, 256, 1024, 4096, 16384, 16385, 65536, 70001] } else { &[256, 4097, 16385, 70001] };
        for &n in lens.iter().filter(|_| shard == 0) {
            let x: Vec<u8> = (0..n).map(|i| (i * 31 + 7) as u8).collect();
            // y differs from x only in its last byte / is a proper prefix / is equal
            let mut y_last = x.clone();
            *y_last.last_mut().unwrap() ^= 0x80;
            let y_prefix = x[..n - 1].to_vec();
            for y in [x.clone(), y_last, y_prefix] {
                long_pairs += 1;
                oracle::begin_execution(parity_odd);
                cx.pair = format!("long strings: len(x)={} len(y)={} (y {} x)", n, y.len(), if y == x { "==" } else if y.len() < n { "proper prefix of" } else { "differs in the last byte from" });
                let bx = bytes_reps(&x);
                let by = bytes_reps(&y);
                let mx = bytesmut_reps(&x);
                let my = bytesmut_reps(&y);
                for (i, (_n, b)) in bx.iter().enumerate() {
                    let b: &Bytes = b;
                    cx.rep.evaluations += 1;
                    if oracle::subject(|| rec(b)) != rec(&x[..]) {
                        cx.fail("Hash for Bytes", "hash", "different write sequence".into(), "that of [u8]".into());
                    }
                    both_orders!(cx, "Bytes", b, &x, "[u8]", &y[..], &y);
                    both_orders!(cx, "Bytes", b, &x, "Vec<u8>", &y, &y);
                    let b2 = &by[(i + 1) % by.len()].1;
                    cx.ord("Bytes vs Bytes", b, b2, &x, &y);
                    cx.eq_only("Bytes vs BytesMut (eq)", b, &my[i % my.len()].1, &x, &y);
                }
                for (i, (_n, m)) in mx.iter().enumerate() {
                    let m: &BytesMut = m;
                    cx.rep.evaluations += 1;
                    if oracle::subject(|| rec(m)) != rec(&x[..]) {
                        cx.fail("Hash for BytesMut", "hash", "different write sequence".into(), "that of [u8]".into());
                    }
                    both_orders!(cx, "BytesMut", m, &x, "[u8]", &y[..], &y);
                    cx.ord("BytesMut vs BytesMut", m, &my[(i + 1) % my.len()].1, &x, &y);
                }
                let mut hs: std::collections::HashSet<Bytes> = std::collections::HashSet::new();
                hs.insert(bx[1].1.clone());
                cx.rep.evaluations += 1;
                if !hs.contains(&x[..]) {
                    cx.fail("HashSet<Bytes>::contains(&[u8])", "lookup", "false".into(), "true".into());
                }
                oracle::subject(|| {
                    drop(hs);
                    drop(bx);
                    drop(by);
                    drop(mx);
                    drop(my);
                });
                let _ = oracle::end_execution();
                let _ = oracle::take_violation();
            }
        }
    }
    // ---- x and y of equal length differing in exactly one byte, at every position, for every length up to 80 and
    // a few longer ones (word-at-a-time comparison / hashing shortcuts skip or mis-order some positions)
    let mut diff_pairs = 0u64;
    {
        let mut lens: Vec<usize> = (1..=80).collect();
        lens.extend([127usize, 128, 129, 255, 256, 257]);
        for (li, &n) in lens.iter().enumerate() {
            if li % nshards != shard {
                continue;
            }
            let x: Vec<u8> = (0..n).map(|i| (i * 29 + 3) as u8 | 1).collect();
            oracle::begin_execution(parity_odd);
            let bx = bytes_reps(&x);
            let mx = bytesmut_reps(&x);
            let positions: Vec<usize> = if n <= 80 { (0..n).collect() } else { vec![0, 1, 7, 8, 15, 16, 17, n / 2, n - 17, n - 16, n - 9, n - 8, n - 2, n - 1] };
            for &p in &positions {
                for delta in [1u8, 0x80] {
                    let mut y = x.clone();
                    y[p] = y[p].wrapping_add(delta);
                    diff_pairs += 1;
                    cx.pair = format!("equal length {} differing only at index {} ({:02x} vs {:02x})", n, p, x[p], y[p]);
                    oracle::sys::set_crash_note(&cx.pair);
                    let by = oracle::subject(|| Bytes::copy_from_slice(&y));
                    let my = oracle::subject(|| BytesMut::from(&y[..]));
                    let (bi, mi) = ((p + n) % bx.len(), (p + n) % mx.len());
                    let b: &Bytes = &bx[bi].1;
                    let m: &BytesMut = &mx[mi].1;
                    cx.ord("Bytes vs Bytes", b, &by, &x, &y);
                    cx.ord("Bytes vs Bytes", &by, b, &y, &x);
                    cx.ord("BytesMut vs BytesMut", m, &my, &x, &y);
                    cx.ord("BytesMut vs BytesMut", &my, m, &y, &x);
                    both_orders!(cx, "Bytes", b, &x, "[u8]", &y[..], &y);
                    both_orders!(cx, "BytesMut", m, &x, "Vec<u8>", &y, &y);
                    cx.eq_only("Bytes vs BytesMut (eq)", b, &my, &x, &y);
                    cx.rep.evaluations += 4;
                    if oracle::subject(|| b.cmp(&by)) != x.cmp(&y) || oracle::subject(|| by.cmp(b)) != y.cmp(&x) {
                        cx.fail("Ord for Bytes", "cmp", format!("{:?}", b.cmp(&by)), format!("{:?}", x.cmp(&y)));
                    }
                    if oracle::subject(|| m.cmp(&my)) != x.cmp(&y) || oracle::subject(|| my.cmp(m)) != y.cmp(&x) {
                        cx.fail("Ord for BytesMut", "cmp", format!("{:?}", m.cmp(&my)), format!("{:?}", x.cmp(&y)));
                    }
                    if oracle::subject(|| rec(&by)) != rec(&y[..]) {
                        cx.fail("Hash for Bytes", "hash", "different write sequence".into(), "that of [u8]".into());
                    }
                    if oracle::subject(|| rec(&my)) != rec(&y[..]) {
                        cx.fail("Hash for BytesMut", "hash", "different write sequence".into(), "that of [u8]".into());
                    }
                    oracle::subject(|| {
                        drop(by);
                        drop(my);
                    });
                }
            }
            oracle::subject(|| {
                drop(bx);
                drop(mx);
            });
            let _ = oracle::end_execution();
            let _ = oracle::take_violation();
        }
    }
    cx.rep.extra_num("single_difference_pairs", diff_pairs);
    // ---- BytesMut handles carved from one allocation: an empty handle at the start / end of a non-empty one
    for x in uni.iter().filter(|x| !x.is_empty() && shard == 0) {
        oracle::begin_execution(parity_odd);
        cx.pair = format!("x={:02x?} vs empty handles carved from the same buffer", x);
        let (e_front, full, e_back, head, rest) = oracle::subject(|| {
            let mut m = BytesMut::from(&x[..]);
            let e_front = m.split_to(0);
            let e_back = m.split_off(x.len());
            let mut m2 = BytesMut::with_capacity(x.len() + 2);
            let head = m2.split();
            m2.extend_from_slice(x);
            (e_front, m, e_back, head, m2)
        });
        for (e, f) in [(&e_front, &full), (&e_back, &full), (&head, &rest)] {
            cx.ord("BytesMut vs BytesMut (empty sibling in the same allocation)", e, f, &[], x);
            cx.ord("BytesMut vs BytesMut (empty sibling in the same allocation)", f, e, x, &[]);
            cx.rep.evaluations += 1;
            if oracle::subject(|| e.cmp(f)) != (&[][..]).cmp(&x[..]) {
                cx.fail("Ord for BytesMut (empty sibling)", "cmp", "wrong".into(), "Less".into());
            }
        }
        oracle::subject(|| {
            drop(e_front);
            drop(full);
            drop(e_back);
            drop(head);
            drop(rest);
        });
        let _ = oracle::end_execution();
        let _ = oracle::take_violation();
    }
    // ---- collections of handles hash like collections of slices (Hash::hash_slice is part of the impl): [T], Vec<T>, arrays, tuples
    if shard == 0 {
        let picks: Vec<&Vec<u8>> = uni.iter().filter(|x| x.len() <= 3).step_by(7).take(24).collect();
        for (i, x) in picks.iter().enumerate() {
            let y = picks[(i * 5 + 1) % picks.len()];
            oracle::begin_execution(parity_odd);
            cx.pair = format!("collections of handles: x={:02x?} y={:02x?}", x, y);
            oracle::sys::set_crash_note(&cx.pair);
            let (bx, by) = oracle::subject(|| (Bytes::copy_from_slice(x), Bytes::copy_from_slice(y)));
            let (mx, my) = oracle::subject(|| (BytesMut::from(&x[..]), BytesMut::from(&y[..])));
            let (sx, sy): (&[u8], &[u8]) = (&x[..], &y[..]);
            cx.rep.evaluations += 8;
            let checks: [(&str, bool); 8] = oracle::subject(|| {
                [
                    ("[Bytes; 2] as a slice", rec(&[bx.clone(), by.clone()][..]) == rec(&[sx, sy][..])),
                    ("[Bytes; 1] as a slice", rec(&[bx.clone()][..]) == rec(&[sx][..])),
                    ("Vec<Bytes>", rec(&vec![by.clone(), bx.clone(), by.clone()]) == rec(&vec![sy, sx, sy])),
                    ("(Bytes, Bytes)", rec(&(bx.clone(), by.clone())) == rec(&(sx, sy))),
                    ("[BytesMut; 2] as a slice", rec(&[mx.clone(), my.clone()][..]) == rec(&[sx, sy][..])),
                    ("Vec<BytesMut>", rec(&vec![my.clone(), mx.clone()]) == rec(&vec![sy, sx])),
                    ("(BytesMut, Bytes)", rec(&(mx.clone(), by.clone())) == rec(&(sx, sy))),
                    ("[Bytes; 0] as a slice", rec(&[bx.clone(); 0][..]) == rec(&[sx; 0][..])),
                ]
            });
            for (what, ok) in checks.iter() {
                if !ok {
                    cx.fail("Hash for collections of handles", what, "different write sequence".into(), "that of the collection of [u8] slices".into());
                }
            }
            oracle::subject(|| {
                drop(bx);
                drop(by);
                drop(mx);
                drop(my);
            });
            let _ = oracle::end_execution();
            let _ = oracle::take_violation();
        }
    }
    // ---- lengths of 2^31 and beyond (64-bit targets): zero-filled static data in reserved address space compared with
    // short strings - slice comparison looks at the common prefix and then at the lengths, so nothing is walked
    let mut giant_pairs = 0u64;
    #[cfg(target_pointer_width = "64")]
    if shard == 0 {
        let map_len = (1usize << 32) + (1usize << 31) + 4096;
        if let Some(base) = oracle::sys::map_zero_readonly(map_len) {
            for glen in [(1usize << 31) - 1, 1usize << 31, (1usize << 31) + 1, (1usize << 32) - 1, 1usize << 32, (1usize << 32) + 1, (1usize << 32) + (1usize << 31)] {
                let g: &'static [u8] = unsafe { core::slice::from_raw_parts(base, glen) };
                for y in [vec![], vec![0u8], vec![0u8, 0, 1], vec![1u8]] {
                    oracle::begin_execution(parity_odd);
                    giant_pairs += 1;
                    cx.pair = format!("x = {} zero bytes (static) vs y={:02x?}", glen, y);
                    oracle::sys::set_crash_note(&cx.pair);
                    let bg = oracle::subject(|| Bytes::from_static(g));
                    let by = oracle::subject(|| Bytes::copy_from_slice(&y));
                    let my = oracle::subject(|| BytesMut::from(&y[..]));
                    cx.ord("Bytes vs Bytes", &bg, &by, g, &y);
                    cx.ord("Bytes vs Bytes", &by, &bg, &y, g);
                    both_orders!(cx, "Bytes", &bg, g, "[u8]", &y[..], &y);
                    both_orders!(cx, "Bytes", &bg, g, "Vec<u8>", &y, &y);
                    cx.eq_only("Bytes vs BytesMut (eq)", &bg, &my, g, &y);
                    cx.eq_only("BytesMut vs Bytes (eq)", &my, &bg, &y, g);
                    cx.rep.evaluations += 2;
                    if oracle::subject(|| bg.cmp(&by)) != g.cmp(&y[..]) || oracle::subject(|| by.cmp(&bg)) != y[..].cmp(g) {
                        cx.fail("Ord for Bytes", "cmp", format!("{:?}", bg.cmp(&by)), format!("{:?}", g.cmp(&y[..])));
                    }
                    oracle::subject(|| {
                        drop(bg);
                        drop(by);
                        drop(my);
                    });
                    let _ = oracle::end_execution();
                    let _ = oracle::take_violation();
                }
            }
            oracle::sys::unmap(base, map_len);
        }
    }
    cx.rep.extra_num("giant_length_pairs", giant_pairs);
    cx.rep.extra_num("long_string_pairs", long_pairs);
    let rows = cx.rows.len() as u64;
    let outcomes = cx.outcomes.len() as u64;
    let row_list: Vec<String> = cx.rows.iter().cloned().collect();
    rep.states = pairs;
    rep.transitions = rep.evaluations;
    rep.traces = rep.evaluations;
    rep.distinct_nontrivial = pairs; // distinct ordered pairs of byte strings
    rep.extra_num("pairs", pairs);
    rep.extra_num("strings", uni.len() as u64);
    rep.extra_num("impl_rows", rows);
    rep.extra_num("distinct_outcomes", outcomes);
    rep.extra.push(("rows".into(), format!("[{}]", row_list.iter().map(|r| oracle::report::jstr(r)).collect::<Vec<_>>().join(","))));
    rep.extra.push(("representations".into(), format!("[{}]", rep_names.iter().map(|r| oracle::report::jstr(r)).collect::<Vec<_>>().join(","))));
}

// ------------------------------------------------------------------ C15

/// Independent parser for a Rust byte-string literal token `b"..."` (Rust reference,
/// "Byte string literals"): ASCII except `"`, `\` and CR, or a byte escape
/// `\xHH \n \r \t \\ \0 \" \'`. Returns the decoded bytes or why the token is invalid.
pub fn parse_byte_string_literal(s: &str) -> Result<Vec<u8>, String> {
    let b = s.as_bytes();
    if b.len() < 3 || b[0] != b'b' || b[1] != b'"' || b[b.len() - 1] != b'"' {
        return Err("not of the form b\"...\"".into());
    }
    let body = &b[2..b.len() - 1];
    let mut out = vec![];
    let mut i = 0;
    while i < body.len() {
        let c = body[i];
        if c >= 0x80 {
            return Err(format!("non-ASCII byte 0x{:02x} in literal", c));
        }
        match c {
            b'"' => return Err("unescaped quote inside literal".into()),
            b'\r' => return Err("bare CR in literal".into()),
            b'\\' => {
                i += 1;
                if i >= body.len() {
                    return Err("dangling backslash".into());
                }
                match body[i] {
                    b'\n' => {
                        // string continuation (Rust reference): backslash + newline skips the newline and all
                        // following whitespace (space, \t, \n, \r) up to the next non-whitespace character
                        while i + 1 < body.len() && matches!(body[i + 1], b' ' | b'\t' | b'\n' | b'\r') {
                            i += 1;
                        }
                    }
                    b'n' => out.push(b'\n'),
                    b'r' => out.push(b'\r'),
                    b't' => out.push(b'\t'),
                    b'\\' => out.push(b'\\'),
                    b'0' => out.push(0),
                    b'"' => out.push(b'"'),
                    b'\'' => out.push(b'\''),
                    b'x' => {
                        let h = |c: u8| -> Option<u8> {
                            match c {
                                b'0'..=b'9' => Some(c - b'0'),
                                b'a'..=b'f' => Some(c - b'a' + 10),
                                b'A'..=b'F' => Some(c - b'A' + 10),
                                _ => None,
                            }
                        };
                        let (h1, h2) = match (body.get(i + 1), body.get(i + 2)) {
                            (Some(&a), Some(&b2)) => (h(a), h(b2)),
                            _ => return Err("truncated \\x escape".into()),
                        };
                        match (h1, h2) {
                            (Some(a), Some(b2)) => out.push(a * 16 + b2),
                            _ => return Err("bad hex digit in \\x escape".into()),
                        }
                        i += 2;
                    }
                    other => return Err(format!("unknown escape \\{}", other as char)),
                }
            }
            c => out.push(c),
        }
        i += 1;
    }
    Ok(out)
}

fn hex_expect(x: &[u8], upper: bool) -> String {
    let d: &[u8; 16] = if upper { b"0123456789ABCDEF" } else { b"0123456789abcdef" };
    let mut s = String::new();
    for &b in x {
        s.push(d[(b >> 4) as usize] as char);
        s.push(d[(b & 15) as usize] as char);
    }
    s
}

fn c15_one(x: &[u8], which: &str, dbg: &str, lx: &str, ux: &str, rep: &mut Report) {
    rep.evaluations += 3;
    match parse_byte_string_literal(dbg) {
        Ok(v) if v == x => {}
        Ok(v) => rep.violate(
            "C15",
            "debug-roundtrip",
            &format!("{:?} of {} {:02x?} decodes to {:02x?}", dbg, which, x, v),
            &format!("{{\"engine\":\"table\",\"bytes\":{:?},\"repr\":{}}}", x, oracle::report::jstr(which)),
        ),
        Err(e) => rep.violate(
            "C15",
            "debug-syntax",
            &format!("Debug output {:?} of {} {:02x?} is not a valid byte-string literal: {}", dbg, which, x, e),
            &format!("{{\"engine\":\"table\",\"bytes\":{:?},\"repr\":{}}}", x, oracle::report::jstr(which)),
        ),
    }
    if lx != hex_expect(x, false) {
        rep.violate("C15", "lowerhex", &format!("{{:x}} of {} {:02x?} printed {:?}", which, x, lx), "");
    }
    if ux != hex_expect(x, true) {
        rep.violate("C15", "upperhex", &format!("{{:X}} of {} {:02x?} printed {:?}", which, x, ux), "");
    }
}

/// Width, precision, fill, alignment, sign, `#` and `0` flags must not change any of the three outputs:
/// the Debug output is *always* a literal that decodes to the contents, hex is *exactly* two digits per byte.
fn c15_flags(x: &[u8], which: &str, b: &dyn Fn(u8) -> String, plain: (&str, &str, &str), rep: &mut Report) {
    for k in 0..12u8 {
        rep.evaluations += 1;
        let got = match oracle::subject_try(|| b(k)) {
            Ok(g) => g,
            Err(e) => {
                rep.violate("C15", "format-panic", &format!("formatting {} {:02x?} with format spec #{} panicked: {}", which, x, k, e), "");
                continue;
            }
        };
        let (spec, want) = match k {
            0 => ("{:4?}", plain.0),
            1 => ("{:.0?}", plain.0),
            2 => ("{:>12?}", plain.0),
            3 => ("{:*<9?}", plain.0),
            4 => ("{:#x}", plain.1),
            5 => ("{:6x}", plain.1),
            6 => ("{:.1x}", plain.1),
            7 => ("{:#X}", plain.2),
            8 => ("{:08X}", plain.2),
            9 => ("{:+x}", plain.1),
            10 => ("{:#?}", plain.0),
            _ => ("{:#14?}", plain.0),
        };
        if k <= 3 || k >= 10 {
            // Debug with flags: must still be a valid literal decoding to the contents
            match parse_byte_string_literal(&got) {
                Ok(v) if v == x => {}
                _ => rep.violate("C15", "debug-flags", &format!("Debug output {:?} of {} {:02x?} under format spec {} is not a byte-string literal of the contents (plain output {:?})", got, which, x, spec, want), ""),
            }
        } else if got != want {
            rep.violate("C15", "hex-flags", &format!("hex output {:?} of {} {:02x?} under format spec {} is not exactly two digits per byte ({:?})", got, which, x, spec, want), "");
        }
    }
}

fn c15_universe(tier: &str) -> Vec<Vec<u8>> {
    let mut v: Vec<Vec<u8>> = vec![vec![]];
    for a in 0..=255u8 {
        v.push(vec![a]);
    }
    // all 65 536 byte pairs (escape adjacency)
    for a in 0..=255u8 {
        for b in 0..=255u8 {
            v.push(vec![a, b]);
        }
    }
    // longer strings: every length up to 80 and a spread beyond (formatters that work in
    // blocks), with a position-coded pattern and with an all-escapes pattern
    let mut lens: Vec<usize> = (5..=80).collect();
    lens.extend([96usize, 100, 127, 128, 129, 200, 255, 256, 257, 300, 1000, 4095, 4096, 4097, 16383, 16384, 16385, 20000, 65536, 70001]);
    for &n in &lens {
        v.push((0..n).map(|i| (i * 37 + 11) as u8).collect());
        if n <= 80 || n == 16385 || tier == "thorough" {
            v.push((0..n).map(|i| [0u8, b'"', b'\\', b'\n', 0x7f, 0xff, b'9', b'a'][i % 8]).collect());
        }
        // printable-only strings with one escape-relevant character at the start / middle / end
        // (fast paths keyed on "everything is printable")
        if n <= 80 {
            for &e in &[b'"', b'\\', b'\'', b'\n', 0u8, 0x7f, 0x80] {
                for pos in [0, n / 2, n - 1] {
                    let mut s: Vec<u8> = (0..n).map(|i| b'a' + (i % 26) as u8).collect();
                    s[pos] = e;
                    v.push(s);
                }
            }
            v.push((0..n).map(|i| b' ' + (i % 95) as u8).collect());
        }
    }
    // uniform fills and fills with one odd byte, every length 1..=80 and block sizes beyond (word-at-a-time
    // formatters: an all-zero / all-ff word, a leading-zero nibble, one deviating byte per word)
    let mut flens: Vec<usize> = (1..=80).collect();
    flens.extend([96usize, 128, 129, 256, 1024, 32767, 32768, 65537]);
    for &n in &flens {
        for &f in &[0x00u8, 0x01, 0x0f, 0x10, 0x7f, 0x80, 0xff, b'a', b' ', b'\t'] {
            // (runs of 32 KiB and more - formatters that print a run in one call with a computed width: 00, ff and a letter)
            if n > 1024 && !(f == 0x00 || f == 0xff || f == b'a') {
                continue;
            }
            v.push(vec![f; n]);
            if n >= 4 && (n <= 40 || (tier == "thorough" && n <= 1024)) {
                for pos in [0, n / 2, n - 1] {
                    let mut s = vec![f; n];
                    s[pos] = 0xab;
                    v.push(s);
                }
            }
        }
    }
    // all strings of length 3..=maxl over the escape-relevant alphabet
    let al = [0x00u8, b'0', b'"', b'\\', b'\n', 0x7f, 0x80, b'x'];
    let maxl = if tier == "thorough" { 7 } else { 4 };
    let mut level: Vec<Vec<u8>> = al.iter().map(|&c| vec![c]).collect();
    for _l in 2..=maxl {
        let mut next = vec![];
        for s in &level {
            for &c in &al {
                let mut t = s.clone();
                t.push(c);
                next.push(t);
            }
        }
        if _l >= 3 {
            v.extend(next.iter().cloned());
        }
        level = next;
    }
    if tier == "thorough" {
        // all strings of length 3 over a 24-symbol alphabet (every escape class, digits and hex letters after \0 and \x)
        let al2: [u8; 24] = [0x00, 0x01, 0x07, 0x08, b'\t', b'\n', 0x0b, b'\r', 0x1b, 0x1f, b' ', b'"', b'\'', b'0', b'7', b'9', b'A', b'\\', b'a', b'f', b'x', 0x7e, 0x7f, 0xff];
        for &a in &al2 {
            for &b in &al2 {
                for &c in &al2 {
                    v.push(vec![a, b, c]);
                }
            }
        }
    }
    v
}

pub fn run_c15(tier: &str, parity_odd: bool, shard: usize, nshards: usize, rep: &mut Report) {
    let uni: Vec<Vec<u8>> = c15_universe(tier).into_iter().enumerate().filter(|(i, _)| i % nshards == shard).map(|(_, x)| x).collect();
    let mut distinct_outputs: BTreeSet<u64> = BTreeSet::new();
    let mut escapes_seen: BTreeSet<String> = BTreeSet::new();
    for (i, x) in uni.iter().enumerate() {
        if x.len() <= 64 {
            oracle::sys::set_crash_note(&format!("C15 byte string {:02x?}", x));
        } else {
            oracle::sys::set_crash_note(&format!("C15 byte string of {} bytes starting {:02x?}", x.len(), &x[..16]));
        }
        oracle::begin_execution(parity_odd);
        // every representation for short strings; a spread of them for the big pair sweep
        let all = x.len() != 2 || i % 17 == 0;
        let br = bytes_reps(x);
        let mr = bytesmut_reps(x);
        for (k, (name, b)) in br.iter().enumerate() {
            if !all && k != i % br.len() {
                continue;
            }
            let (d, l, u) = match oracle::subject_try(|| (format!("{:?}", b), format!("{:x}", b), format!("{:X}", b))) {
                Ok(t) => t,
                Err(e) => {
                    rep.violate("C15", "format-panic", &format!("formatting {} {:02x?} with {{:?}} / {{:x}} / {{:X}} panicked: {}", name, x, e), "");
                    continue;
                }
            };
            c15_one(x, name, &d, &l, &u, rep);
            if k == 0 && (x.len() != 2 || i % 16 == 0) {
                let f = |k: u8| -> String {
                    match k {
                        0 => format!("{:4?}", b),
                        1 => format!("{:.0?}", b),
                        2 => format!("{:>12?}", b),
                        3 => format!("{:*<9?}", b),
                        4 => format!("{:#x}", b),
                        5 => format!("{:6x}", b),
                        6 => format!("{:.1x}", b),
                        7 => format!("{:#X}", b),
                        8 => format!("{:08X}", b),
                        9 => format!("{:+x}", b),
                        10 => format!("{:#?}", b),
                        _ => format!("{:#14?}", b),
                    }
                };
                c15_flags(x, name, &f, (&d, &l, &u), rep);
            }
            if k == 0 {
                distinct_outputs.insert(oracle::report::hash128(d.as_bytes()) as u64);
                let mut j = 0;
                let db = d.as_bytes();
                while j + 1 < db.len() {
                    if db[j] == b'\\' {
                        escapes_seen.insert(format!("\\{}", db[j + 1] as char));
                        j += 1;
                    }
                    j += 1;
                }
            }
        }
        for (k, (name, m)) in mr.iter().enumerate() {
            if !all && k != i % mr.len() {
                continue;
            }
            let (d, l, u) = match oracle::subject_try(|| (format!("{:?}", m), format!("{:x}", m), format!("{:X}", m))) {
                Ok(t) => t,
                Err(e) => {
                    rep.violate("C15", "format-panic", &format!("formatting {} {:02x?} with {{:?}} / {{:x}} / {{:X}} panicked: {}", name, x, e), "");
                    continue;
                }
            };
            c15_one(x, name, &d, &l, &u, rep);
            if k == 0 && (x.len() != 2 || i % 16 == 0) {
                let f = |k: u8| -> String {
                    match k {
                        0 => format!("{:4?}", m),
                        1 => format!("{:.0?}", m),
                        2 => format!("{:>12?}", m),
                        3 => format!("{:*<9?}", m),
                        4 => format!("{:#x}", m),
                        5 => format!("{:6x}", m),
                        6 => format!("{:.1x}", m),
                        7 => format!("{:#X}", m),
                        8 => format!("{:08X}", m),
                        9 => format!("{:+x}", m),
                        10 => format!("{:#?}", m),
                        _ => format!("{:#14?}", m),
                    }
                };
                c15_flags(x, name, &f, (&d, &l, &u), rep);
            }
        }
        if (i < 3 || i % 9000 == 0) && rep.violations.is_empty() {
            let d = format!("{:?}", br[0].1);
            rep.sample(format!("bytes {:02x?} -> Debug {} -> parsed back equal; hex {:x}", x, d, br[0].1));
        }
        oracle::subject(|| {
            drop(br);
            drop(mr);
        });
        let end = oracle::end_execution();
        if !end.leaked.is_empty() || end.corrupt.is_some() {
            rep.violate("C15", "memory", &format!("ledger after formatting {:02x?}: {:?}", x, end), "");
        }
        if let Some(v) = oracle::take_violation() {
            rep.violate("C15", "memory", &v, "");
        }
    }
    #[cfg(feature = "serde")]
    serde_part(&uni, tier, rep);
    rep.states = uni.len() as u64;
    rep.transitions = rep.evaluations;
    rep.traces = rep.evaluations;
    rep.distinct_nontrivial = distinct_outputs.len() as u64;
    rep.extra_num("byte_strings", uni.len() as u64);
    rep.extra_num("distinct_debug_outputs", distinct_outputs.len() as u64);
    rep.extra_str("escape_kinds_seen", &escapes_seen.iter().cloned().collect::<Vec<_>>().join(" "));
    rep.extra.push(("serde_checked".into(), if cfg!(feature = "serde") { "true".into() } else { "false".into() }));
    let _ = leak;
}

#[cfg(feature = "serde")]
fn serde_part(uni: &[Vec<u8>], tier: &str, rep: &mut Report) {
    use serde_test::{assert_de_tokens, assert_ser_tokens, Token};
    use std::panic::{catch_unwind, AssertUnwindSafe};
    let mut n = 0u64;
    let mut fails: Vec<String> = vec![];
    for (i, x) in uni.iter().enumerate() {
        if tier != "thorough" && x.len() == 2 && i % 5 != 0 {
            continue;
        }
        if x.len() > 6000 && (tier != "thorough" || x.len() > 20000) && x.len() != 16385 {
            continue;
        }
        let st: &'static [u8] = Box::leak(x.clone().into_boxed_slice());
        let b = Bytes::copy_from_slice(x);
        let m = BytesMut::from(&x[..]);
        let mut entry = |name: &str, f: &mut dyn FnMut()| {
            n += 1;
            if catch_unwind(AssertUnwindSafe(|| f())).is_err() && fails.len() < 20 {
                fails.push(format!("{} on {:02x?}", name, x));
            }
        };
        entry("serialize Bytes", &mut || assert_ser_tokens(&b, &[Token::Bytes(st)]));
        entry("serialize BytesMut", &mut || assert_ser_tokens(&m, &[Token::Bytes(st)]));
        for (nm, tok) in [("Bytes", Token::Bytes(st)), ("BorrowedBytes", Token::BorrowedBytes(st)), ("ByteBuf", Token::ByteBuf(st))] {
            entry(&format!("deserialize Bytes from {}", nm), &mut || assert_de_tokens(&b, &[tok]));
            entry(&format!("deserialize BytesMut from {}", nm), &mut || assert_de_tokens(&m, &[tok]));
        }
        for hint in [Some(x.len()), None, Some(0), Some(x.len() + 100_000)] {
            let mut toks = vec![Token::Seq { len: hint }];
            for &e in x.iter() {
                toks.push(Token::U8(e));
            }
            toks.push(Token::SeqEnd);
            entry(&format!("deserialize Bytes from Seq(hint {:?})", hint), &mut || assert_de_tokens(&b, &toks));
            entry(&format!("deserialize BytesMut from Seq(hint {:?})", hint), &mut || assert_de_tokens(&m, &toks));
        }
        if let Ok(s) = std::str::from_utf8(st) {
            for (nm, tok) in [("Str", Token::Str(s)), ("BorrowedStr", Token::BorrowedStr(s)), ("String", Token::String(s))] {
                entry(&format!("deserialize Bytes from {}", nm), &mut || assert_de_tokens(&b, &[tok]));
                entry(&format!("deserialize BytesMut from {}", nm), &mut || assert_de_tokens(&m, &[tok]));
            }
        }
    }
    // deserialize_in_place into a place that already holds a *different* (longer / shorter) value, through serde's own value
    // deserializers: the place must end up equal to the new value, whatever it held
    {
        use serde::de::value::{BorrowedBytesDeserializer, BytesDeserializer, Error as VErr, SeqDeserializer, StrDeserializer};
        use serde::Deserialize;
        let olds: [&[u8]; 3] = [b"", b"old-old-old-old", b"o"];
        for (i, x) in uni.iter().enumerate() {
            if x.len() > 40 || (x.len() == 2 && i % 50 != 0) {
                continue;
            }
            for old in olds.iter() {
                for via in 0..4 {
                    let mut pb = Bytes::copy_from_slice(old);
                    let mut pm = BytesMut::from(&old[..]);
                    let s = std::str::from_utf8(x).ok();
                    let r = catch_unwind(AssertUnwindSafe(|| -> Result<bool, VErr> {
                        match via {
                            0 => {
                                Bytes::deserialize_in_place(SeqDeserializer::<_, VErr>::new(x.iter().cloned()), &mut pb)?;
                                BytesMut::deserialize_in_place(SeqDeserializer::<_, VErr>::new(x.iter().cloned()), &mut pm)?;
                            }
                            1 => {
                                Bytes::deserialize_in_place(BytesDeserializer::<VErr>::new(x), &mut pb)?;
                                BytesMut::deserialize_in_place(BytesDeserializer::<VErr>::new(x), &mut pm)?;
                            }
                            2 => {
                                Bytes::deserialize_in_place(BorrowedBytesDeserializer::<VErr>::new(x), &mut pb)?;
                                BytesMut::deserialize_in_place(BorrowedBytesDeserializer::<VErr>::new(x), &mut pm)?;
                            }
                            _ => match s {
                                Some(s) => {
                                    Bytes::deserialize_in_place(StrDeserializer::<VErr>::new(s), &mut pb)?;
                                    BytesMut::deserialize_in_place(StrDeserializer::<VErr>::new(s), &mut pm)?;
                                }
                                None => return Ok(true),
                            },
                        }
                        Ok(pb[..] == x[..] && pm[..] == x[..])
                    }));
                    n += 1;
                    match r {
                        Ok(Ok(true)) => {}
                        other => {
                            if fails.len() < 20 {
                                fails.push(format!("deserialize_in_place (source kind {}) into a place holding {:02x?}: {} | new value {:02x?}", via, old, match other { Ok(Ok(_)) => "the place does not hold the new value".to_string(), Ok(Err(e)) => format!("error {}", e), Err(_) => "panicked".to_string() }, x));
                            }
                        }
                    }
                }
            }
        }
    }
    rep.evaluations += n;
    rep.extra_num("serde_roundtrips", n);
    for f in fails {
        rep.violate("C15", "serde", &format!("serde round trip failed: {}", f), "");
    }
}

/// C17, serde side: sequences longer than the 4096-element capacity cap of `visit_seq` with honest and lying length hints
/// (a deserializer's size hint is user-controlled data). Wrong data would be allowed; the oracle is the allocator's:
/// canaries, ledger, poison.
#[cfg(feature = "serde")]
pub fn run_c17_serde(parity_odd: bool, rep: &mut Report) {
    use serde_test::{assert_de_tokens, Token};
    use std::panic::{catch_unwind, AssertUnwindSafe};
    let mut n = 0u64;
    for len in [0usize, 5, 4095, 4096, 4097, 4100, 5000, 9000] {
        let x: Vec<u8> = (0..len).map(|i| (i * 37 + 11) as u8).collect();
        for hint in [Some(len), None, Some(0), Some(len.saturating_sub(1)), Some(len + 1), Some(4096), Some(4097), Some(len + 100_000), Some(usize::MAX)] {
            for mutable in [false, true] {
                let mut toks = vec![Token::Seq { len: hint }];
                for &e in x.iter() {
                    toks.push(Token::U8(e));
                }
                toks.push(Token::SeqEnd);
                let what = format!("deserialize {} from a sequence of {} elements announcing {:?}", if mutable { "BytesMut" } else { "Bytes" }, len, hint);
                oracle::sys::set_crash_note(&what);
                let b = Bytes::copy_from_slice(&x);
                let m = BytesMut::from(&x[..]);
                oracle::begin_execution(parity_odd);
                n += 1;
                let r = oracle::subject(|| catch_unwind(AssertUnwindSafe(|| if mutable { assert_de_tokens(&m, &toks) } else { assert_de_tokens(&b, &toks) })));
                let mem = oracle::take_violation().or_else(oracle::check_canaries);
                let end = oracle::end_execution();
                let mem = mem.or(end.corrupt).or_else(oracle::take_violation);
                if let Some(v) = mem {
                    rep.violate("C17", "serde-seq:memory", &format!("{}: {}", what, v), &format!("{{\"engine\":\"liar-serde\",\"case\":{}}}", oracle::report::jstr(&what)));
                }
                if let Err(e) = r {
                    oracle::subject(|| drop(e));
                    rep.violate("C15", "serde-seq:value", &format!("{}: the result is not the sequence", what), "");
                }
            }
        }
    }
    rep.evaluations = n;
    rep.states = n;
    rep.transitions = n;
    rep.traces = n;
    rep.distinct_nontrivial = n;
    rep.extra_num("sequences", n);
}
