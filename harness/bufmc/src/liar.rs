//! Engine A'' (DESIGN.md §3 C17): scripted misbehaving *safe* trait implementations - a Buf
//! whose remaining()/chunk()/advance() lie or panic, an AsRef<[u8]> owner that answers
//! differently per call or panics, iterators with wrong size hints - passed to every crate
//! entry point that consumes them. All placements of <= d deviations among the first calls
//! are enumerated (deviation bounding). Panics and wrong data are allowed; the oracle is
//! memory safety: allocator ledger, canaries, no guard/poison bytes in any output, and no
//! leak after unwinding and dropping everything.
use bytes::buf::UninitSlice;
use bytes::{Buf, BufMut, Bytes, BytesMut};
use oracle::report::Report;
use std::io::{BufRead, IoSlice, Read};
use std::panic::{catch_unwind, AssertUnwindSafe};

#[derive(Clone, Copy, Debug, PartialEq, Eq)]
pub enum Dev {
    RemPlus(usize),
    RemMinus(usize),
    RemHuge,
    RemMax,
    RemZero,
    RemPanic,
    ChunkEmpty,
    ChunkShort,
    ChunkLong,
    /// a two-byte slice that lives in a *separate* exactly-sized allocation (same values as the next two bytes): reading past
    /// it - e.g. because an earlier chunk() call was longer - runs into that block's red zone
    ChunkElsewhere,
    ChunkPanic,
    AdvIgnore,
    AdvPartial,
    AdvPanic,
}
#[derive(Clone, Copy, Debug, PartialEq, Eq)]
pub enum Meth {
    Rem,
    Chunk,
    Adv,
}
pub type Script = Vec<(Meth, u32, Dev)>;

const N: usize = 6; // logical bytes
const TAIL: usize = 8; // bytes the liar really owns beyond what it admits

pub struct Liar {
    data: Vec<u8>,
    alt: Vec<u8>,
    pos: usize,
    n_rem: std::cell::Cell<u32>,
    n_chunk: std::cell::Cell<u32>,
    n_adv: u32,
    script: Script,
    fuel: std::cell::Cell<u32>,
}
/// bit i set = byte i of the most recent liars' data was handed out by some chunk() call
static EXPOSED: std::sync::atomic::AtomicU32 = std::sync::atomic::AtomicU32::new(0);
fn expose(from: usize, to: usize) {
    let mut m = 0u32;
    for i in from..to {
        m |= 1 << i;
    }
    EXPOSED.fetch_or(m, std::sync::atomic::Ordering::Relaxed);
}
impl Liar {
    /// must be called inside the subject window: the data block is then crate-attributed,
    /// exactly sized, with a canary zone behind it (an out-of-bounds read returns 0xA5 bytes)
    pub fn new(script: &Script) -> Liar {
        let mut data = Vec::with_capacity(N + TAIL);
        for i in 0..N {
            data.push(0x10 + i as u8);
        }
        for i in 0..TAIL {
            data.push(0x70 + i as u8);
        }
        let mut alt = Vec::with_capacity(2);
        alt.push(0x10);
        alt.push(0x11);
        Liar { data, alt, pos: 0, n_rem: std::cell::Cell::new(0), n_chunk: std::cell::Cell::new(0), n_adv: 0, script: oracle::harness(|| script.clone()), fuel: std::cell::Cell::new(96) }
    }
    fn dev(&self, m: Meth, n: u32) -> Option<Dev> {
        self.script.iter().find(|(mm, nn, _)| *mm == m && *nn == n).map(|x| x.2)
    }
    fn burn(&self) {
        if self.fuel.get() == 0 {
            panic!("liar: out of fuel");
        }
        self.fuel.set(self.fuel.get() - 1);
    }
    fn true_rem(&self) -> usize {
        N.saturating_sub(self.pos)
    }
}
impl Buf for Liar {
    fn remaining(&self) -> usize {
        self.burn();
        let n = self.n_rem.get();
        self.n_rem.set(n + 1);
        let t = self.true_rem();
        match self.dev(Meth::Rem, n) {
            Some(Dev::RemPlus(k)) => t + k,
            Some(Dev::RemMinus(k)) => t.saturating_sub(k),
            Some(Dev::RemHuge) => usize::MAX / 2,
            Some(Dev::RemMax) => usize::MAX,
            Some(Dev::RemZero) => 0,
            Some(Dev::RemPanic) => panic!("liar: remaining panics"),
            _ => t,
        }
    }
    fn chunk(&self) -> &[u8] {
        self.burn();
        let n = self.n_chunk.get();
        self.n_chunk.set(n + 1);
        let p = self.pos.min(N);
        match self.dev(Meth::Chunk, n) {
            Some(Dev::ChunkEmpty) => &self.data[p..p],
            Some(Dev::ChunkShort) => {
                expose(p, (p + 1).min(N));
                &self.data[p..(p + 1).min(N)]
            }
            Some(Dev::ChunkLong) => {
                expose(p, N + TAIL);
                &self.data[p..]
            }
            Some(Dev::ChunkElsewhere) => {
                expose(0, 2);
                &self.alt[..]
            }
            Some(Dev::ChunkPanic) => panic!("liar: chunk panics"),
            _ => {
                expose(p, N);
                &self.data[p..N]
            }
        }
    }
    fn advance(&mut self, cnt: usize) {
        self.burn();
        let n = self.n_adv;
        self.n_adv += 1;
        match self.dev(Meth::Adv, n) {
            Some(Dev::AdvIgnore) => {}
            Some(Dev::AdvPartial) => self.pos = self.pos.saturating_add(cnt.saturating_sub(1)).min(N + TAIL),
            Some(Dev::AdvPanic) => panic!("liar: advance panics"),
            _ => self.pos = self.pos.saturating_add(cnt).min(N + TAIL),
        }
    }
}

/// A liar that also overrides the provided `copy_to_slice` with one that writes nothing (it only advances): a safe
/// implementation may do that; whoever calls it must not have promised anybody that the destination is initialised.
pub struct Lazy(pub Liar);
impl Buf for Lazy {
    fn remaining(&self) -> usize {
        self.0.remaining()
    }
    fn chunk(&self) -> &[u8] {
        self.0.chunk()
    }
    fn advance(&mut self, cnt: usize) {
        self.0.advance(cnt)
    }
    fn copy_to_slice(&mut self, dst: &mut [u8]) {
        self.0.advance(dst.len());
    }
}

// ---- lying owner

pub struct LiarOwner {
    a: Vec<u8>,
    b: Vec<u8>,
    calls: std::cell::Cell<u32>,
    mode: u8, // 0 honest, 1 panic on first call, 2 different (longer) slice on later calls, 3 empty first then long
}
impl AsRef<[u8]> for LiarOwner {
    fn as_ref(&self) -> &[u8] {
        let n = self.calls.get();
        self.calls.set(n + 1);
        if n > 300 {
            // fuel: an inconsistent owner may make a consumer loop for ever (allowed, it is not a memory error)
            panic!("liar owner: out of fuel");
        }
        match (self.mode, n) {
            (1, 0) => panic!("liar owner: as_ref panics"),
            (2, 0) => &self.a,
            (2, _) => &self.b,
            (3, 0) => &self.a[..0],
            (3, _) => &self.b,
            (4, 0) => &self.b,
            (4, _) => &self.a,
            (5, k) => {
                if k % 2 == 0 {
                    &self.a
                } else {
                    &self.b
                }
            }
            (6, k) => {
                if k % 2 == 0 {
                    &self.b
                } else {
                    &self.a
                }
            }
            _ => &self.a,
        }
    }
}

// ---- lying iterator

pub struct LiarIter {
    left: usize,
    hint: (usize, Option<usize>),
    panic_at: Option<usize>,
    produced: usize,
}
impl Iterator for LiarIter {
    type Item = u8;
    fn next(&mut self) -> Option<u8> {
        if Some(self.produced) == self.panic_at {
            panic!("liar iterator panics");
        }
        if self.left == 0 {
            return None;
        }
        self.left -= 1;
        self.produced += 1;
        Some(0x10 + (self.produced as u8 & 0x0f))
    }
    fn size_hint(&self) -> (usize, Option<usize>) {
        self.hint
    }
}

static REF_DATA: [u8; 64] = {
    let mut a = [0u8; 64];
    let mut i = 0;
    while i < 64 {
        a[i] = 0x10 + (i as u8 & 0x0f);
        i += 1;
    }
    a
};
/// by-reference iterator (`Extend<&u8>`) with a scripted size hint
pub struct LiarRefIter {
    left: usize,
    hint: (usize, Option<usize>),
    produced: usize,
}
impl Iterator for LiarRefIter {
    type Item = &'static u8;
    fn next(&mut self) -> Option<&'static u8> {
        if self.left == 0 {
            return None;
        }
        self.left -= 1;
        self.produced += 1;
        Some(&REF_DATA[self.produced % 64])
    }
    fn size_hint(&self) -> (usize, Option<usize>) {
        self.hint
    }
}

/// A Buf that is honest about remaining/chunk/advance but whose `chunks_vectored` returns a scripted
/// count (it fills at most one slot)
pub struct VecLiar {
    data: Vec<u8>,
    pos: usize,
    claim: usize,
}
impl Buf for VecLiar {
    fn remaining(&self) -> usize {
        self.data.len() - self.pos
    }
    fn chunk(&self) -> &[u8] {
        &self.data[self.pos..]
    }
    fn advance(&mut self, cnt: usize) {
        assert!(cnt <= self.remaining());
        self.pos += cnt;
    }
    fn chunks_vectored<'a>(&'a self, dst: &mut [IoSlice<'a>]) -> usize {
        if !dst.is_empty() && self.pos < self.data.len() {
            dst[0] = IoSlice::new(&self.data[self.pos..]);
        }
        self.claim
    }
}

// ------------------------------------------------------------------ entry points

/// bytes an entry point handed back to the caller (checked for guard / poison values)
type Out = Vec<u8>;

fn push_val(out: &mut Out, v: u128, size: usize) {
    oracle::harness(|| out.extend_from_slice(&v.to_le_bytes()[..size]));
}
fn push_bytes(out: &mut Out, b: &[u8]) {
    oracle::harness(|| out.extend_from_slice(b));
}

pub struct Entry {
    pub name: &'static str,
    pub run: fn(&Script, &mut Out),
}

macro_rules! entry {
    ($name:expr, |$s:ident, $o:ident| $body:block) => {
        Entry { name: $name, run: |$s: &Script, $o: &mut Out| $body }
    };
}

pub fn entries() -> Vec<Entry> {
    vec![
        entry!("BytesMut::put(liar) cap 0", |s, o| {
            let mut m = BytesMut::new();
            m.put(Liar::new(s));
            push_bytes(o, &m);
        }),
        entry!("BytesMut::put(liar) cap 4", |s, o| {
            let mut m = BytesMut::with_capacity(4);
            m.put(Liar::new(s));
            push_bytes(o, &m);
        }),
        entry!("BytesMut::put(liar) shared with offset", |s, o| {
            let mut m = BytesMut::with_capacity(12);
            m.put_slice(&[0x21, 0x22, 0x23]);
            let head = m.split_to(2);
            m.put(Liar::new(s));
            push_bytes(o, &m);
            push_bytes(o, &head);
        }),
        entry!("Vec::put(liar) cap 0", |s, o| {
            let mut v: Vec<u8> = Vec::new();
            v.put(Liar::new(s));
            push_bytes(o, &v);
        }),
        entry!("Vec::put(liar) cap 5", |s, o| {
            let mut v: Vec<u8> = Vec::with_capacity(5);
            v.put(Liar::new(s));
            push_bytes(o, &v);
        }),
        entry!("<&mut [u8]>::put(liar) 16", |s, o| {
            let mut arr = [0xEEu8; 16];
            {
                let mut sl = &mut arr[..];
                sl.put(Liar::new(s));
            }
            push_bytes(o, &arr);
        }),
        entry!("<&mut [u8]>::put(liar) 4", |s, o| {
            let mut arr = [0xEEu8; 4];
            let r = catch_unwind(AssertUnwindSafe(|| {
                let mut sl = &mut arr[..];
                sl.put(Liar::new(s));
            }));
            push_bytes(o, &arr);
            if let Err(e) = r {
                std::panic::resume_unwind(e);
            }
        }),
        entry!("<&mut [u8]>::put(liar) exactly-sized heap window of 8", |s, o| {
            // the window is a whole allocation: one byte too many lands in its red zone
            let mut v: Vec<u8> = Vec::with_capacity(8);
            v.resize(8, 0xEE);
            let r = catch_unwind(AssertUnwindSafe(|| {
                let mut sl = &mut v[..];
                sl.put(Liar::new(s));
            }));
            push_bytes(o, &v);
            if let Err(e) = r {
                std::panic::resume_unwind(e);
            }
        }),
        entry!("<&mut [MaybeUninit<u8>]>::put(liar) exactly-sized heap windows of 8 and 3", |s, o| {
            let mut first_panic = None;
            for n in [8usize, 3] {
                let mut v: Vec<core::mem::MaybeUninit<u8>> = Vec::with_capacity(n);
                v.resize(n, core::mem::MaybeUninit::new(0xEE));
                let r = catch_unwind(AssertUnwindSafe(|| {
                    let mut sl = &mut v[..];
                    sl.put(Liar::new(s));
                }));
                let init: Vec<u8> = oracle::harness(|| v.iter().map(|b| unsafe { b.assume_init() }).collect());
                push_bytes(o, &init);
                if let Err(e) = r {
                    first_panic.get_or_insert(e);
                }
            }
            if let Some(e) = first_panic {
                std::panic::resume_unwind(e);
            }
        }),
        entry!("<&mut [MaybeUninit<u8>]>::put_slice / put_bytes after put(liar)", |s, o| {
            let mut v: Vec<core::mem::MaybeUninit<u8>> = Vec::with_capacity(10);
            v.resize(10, core::mem::MaybeUninit::new(0xEE));
            let r = catch_unwind(AssertUnwindSafe(|| {
                let mut sl = &mut v[..];
                sl.put(Liar::new(s).take(4));
                sl.put_slice(&[0x51, 0x52]);
                sl.put_bytes(0x53, 2);
            }));
            let init: Vec<u8> = oracle::harness(|| v.iter().map(|b| unsafe { b.assume_init() }).collect());
            push_bytes(o, &init);
            if let Err(e) = r {
                std::panic::resume_unwind(e);
            }
        }),
        entry!("copy_to_bytes of a Buf whose own copy_to_slice writes nothing", |s, o| {
            let mut first_panic = None;
            let mut run = |f: &mut dyn FnMut() -> Bytes| match catch_unwind(AssertUnwindSafe(|| f())) {
                Ok(b) => push_bytes(o, &b),
                Err(e) => {
                    first_panic.get_or_insert(e);
                }
            };
            run(&mut || Lazy(Liar::new(s)).copy_to_bytes(4));
            run(&mut || Lazy(Liar::new(s)).take(5).copy_to_bytes(3));
            run(&mut || Lazy(Liar::new(s)).chain(&[0x31u8, 0x32][..]).copy_to_bytes(7));
            run(&mut || Buf::chain(&[0x31u8, 0x32][..], Lazy(Liar::new(s))).copy_to_bytes(5));
            run(&mut || {
                let mut l = Lazy(Liar::new(s));
                let mut r = &mut l;
                (&mut r).copy_to_bytes(2)
            });
            run(&mut || {
                let mut b: Box<dyn Buf> = Box::new(Lazy(Liar::new(s)));
                b.copy_to_bytes(6)
            });
            if let Some(e) = first_panic {
                std::panic::resume_unwind(e);
            }
        }),
        entry!("Limit<&mut [u8]>::put(liar)", |s, o| {
            let mut arr = [0xEEu8; 16];
            {
                let mut l = (&mut arr[..]).limit(5);
                l.put(Liar::new(s));
            }
            push_bytes(o, &arr);
        }),
        entry!("Chain<&mut [u8], Vec>::put(liar)", |s, o| {
            let mut arr = [0xEEu8; 3];
            let mut v: Vec<u8> = Vec::new();
            {
                let mut c = (&mut arr[..]).chain_mut(&mut v);
                c.put(Liar::new(s));
            }
            push_bytes(o, &arr);
            push_bytes(o, &v);
        }),
        entry!("liar.copy_to_bytes(3)", |s, o| {
            let mut l = Liar::new(s);
            let b = l.copy_to_bytes(3);
            push_bytes(o, &b);
        }),
        entry!("liar.copy_to_bytes(6)", |s, o| {
            let mut l = Liar::new(s);
            let b = l.copy_to_bytes(6);
            push_bytes(o, &b);
        }),
        entry!("liar.copy_to_bytes(8)", |s, o| {
            let mut l = Liar::new(s);
            let b = l.copy_to_bytes(8);
            push_bytes(o, &b);
        }),
        entry!("liar.take(4).copy_to_bytes(3)", |s, o| {
            let mut t = Liar::new(s).take(4);
            let b = t.copy_to_bytes(3);
            push_bytes(o, &b);
            push_val(o, t.limit() as u128, 8);
        }),
        entry!("liar.chain(slice).copy_to_bytes(8)", |s, o| {
            let mut c = Liar::new(s).chain(&[0x31u8, 0x32, 0x33][..]);
            let b = c.copy_to_bytes(8);
            push_bytes(o, &b);
        }),
        entry!("slice.chain(liar).copy_to_bytes(5)", |s, o| {
            let mut c = Buf::chain(&[0x31u8, 0x32, 0x33][..], Liar::new(s));
            let b = c.copy_to_bytes(5);
            push_bytes(o, &b);
        }),
        entry!("liar.copy_to_slice(4)", |s, o| {
            let mut l = Liar::new(s);
            let mut d = [0xEEu8; 4];
            let r = catch_unwind(AssertUnwindSafe(|| l.copy_to_slice(&mut d)));
            push_bytes(o, &d);
            if let Err(e) = r {
                std::panic::resume_unwind(e);
            }
        }),
        entry!("liar.copy_to_slice(6)", |s, o| {
            let mut l = Liar::new(s);
            let mut d = [0xEEu8; 6];
            let r = catch_unwind(AssertUnwindSafe(|| l.copy_to_slice(&mut d)));
            push_bytes(o, &d);
            if let Err(e) = r {
                std::panic::resume_unwind(e);
            }
        }),
        entry!("liar.try_copy_to_slice(7)", |s, o| {
            let mut l = Liar::new(s);
            let mut d = [0xEEu8; 7];
            let r = catch_unwind(AssertUnwindSafe(|| l.try_copy_to_slice(&mut d).is_ok()));
            push_bytes(o, &d);
            if let Err(e) = r {
                std::panic::resume_unwind(e);
            }
        }),
        entry!("liar getters (fast and slow paths)", |s, o| {
            let fs: [(fn(&mut dyn Buf) -> u128, usize); 10] = [
                (|b| b.get_u8() as u128, 1),
                (|b| b.get_u16() as u128, 2),
                (|b| b.get_u32_le() as u128, 4),
                (|b| b.get_u64() as u128, 8),
                (|b| b.get_u128_le(), 16),
                (|b| b.get_uint(3) as u128, 8),
                (|b| b.get_int_le(5) as u64 as u128, 8),
                (|b| b.get_f64().to_bits() as u128, 8),
                (|b| b.try_get_u32().unwrap_or(0) as u128, 4),
                (|b| b.try_get_u64_le().unwrap_or(0) as u128, 8),
            ];
            let mut first_panic = None;
            for (f, size) in fs.iter() {
                let mut l = Liar::new(s);
                match catch_unwind(AssertUnwindSafe(|| f(&mut l))) {
                    Ok(v) => push_val(o, v, *size),
                    Err(e) => {
                        first_panic.get_or_insert(e);
                    }
                }
                drop(l);
            }
            if let Some(e) = first_panic {
                std::panic::resume_unwind(e);
            }
        }),
        entry!("getters through Take / &mut / Box<dyn Buf> / Chain", |s, o| {
            let mut first_panic = None;
            let mut run = |f: &mut dyn FnMut() -> (u128, usize)| match catch_unwind(AssertUnwindSafe(|| f())) {
                Ok((v, size)) => push_val(o, v, size),
                Err(e) => {
                    first_panic.get_or_insert(e);
                }
            };
            run(&mut || (Liar::new(s).take(5).get_u32() as u128, 4));
            run(&mut || (Liar::new(s).take(2).try_get_u32().unwrap_or(0) as u128, 4));
            run(&mut || {
                let mut l = Liar::new(s);
                let mut r = &mut l;
                ((&mut r).get_u64_le() as u128, 8)
            });
            run(&mut || {
                let mut b: Box<dyn Buf> = Box::new(Liar::new(s));
                (b.get_u32() as u128, 4)
            });
            run(&mut || (Liar::new(s).chain(&[0x41u8, 0x42, 0x43, 0x44][..]).get_u64() as u128, 8));
            run(&mut || (Buf::chain(&[0x41u8, 0x42][..], Liar::new(s)).get_u32_le() as u128, 4));
            run(&mut || (Liar::new(s).chain(Liar::new(s)).get_u128(), 16));
            if let Some(e) = first_panic {
                std::panic::resume_unwind(e);
            }
        }),
        entry!("chunks_vectored through Take and Chain", |s, o| {
            let t = Liar::new(s).take(4);
            let mut dst = [IoSlice::new(&[]), IoSlice::new(&[]), IoSlice::new(&[])];
            let n = t.chunks_vectored(&mut dst);
            for d in dst.iter().take(n.min(3)) {
                push_bytes(o, d);
            }
            let c = Liar::new(s).chain(Liar::new(s));
            let mut dst = [IoSlice::new(&[]), IoSlice::new(&[]), IoSlice::new(&[])];
            let n = c.chunks_vectored(&mut dst);
            for d in dst.iter().take(n.min(3)) {
                push_bytes(o, d);
            }
        }),
        entry!("Reader<liar>: read, fill_buf, consume", |s, o| {
            let mut r = Liar::new(s).reader();
            let mut d = [0xEEu8; 4];
            let n = r.read(&mut d).unwrap_or(0);
            push_bytes(o, &d[..n.min(4)]);
            let fb = r.fill_buf().map(|x| x.to_vec()).unwrap_or_default();
            push_bytes(o, &fb);
            r.consume(fb.len());
            let mut rest = Vec::new();
            let mut small = [0xEEu8; 3];
            for _ in 0..4 {
                let n = r.read(&mut small).unwrap_or(0);
                rest.extend_from_slice(&small[..n.min(3)]);
            }
            push_bytes(o, &rest);
        }),
        entry!("IntoIter<liar>", |s, o| {
            let it = bytes::buf::IntoIter::new(Liar::new(s));
            let v: Vec<u8> = it.take(32).collect();
            push_bytes(o, &v);
        }),
        entry!("BytesMut::put(liar.take(5)) and put(&mut liar)", |s, o| {
            let mut m = BytesMut::with_capacity(2);
            m.put(Liar::new(s).take(5));
            let mut l = Liar::new(s);
            m.put(&mut l);
            push_bytes(o, &m);
        }),
    ]
}

fn rem_devs() -> Vec<Dev> {
    vec![Dev::RemPlus(1), Dev::RemPlus(7), Dev::RemMinus(1), Dev::RemMinus(7), Dev::RemZero, Dev::RemHuge, Dev::RemMax, Dev::RemPanic]
}
fn chunk_devs() -> Vec<Dev> {
    vec![Dev::ChunkEmpty, Dev::ChunkShort, Dev::ChunkLong, Dev::ChunkElsewhere, Dev::ChunkPanic]
}
fn adv_devs() -> Vec<Dev> {
    vec![Dev::AdvIgnore, Dev::AdvPartial, Dev::AdvPanic]
}

/// all single deviations among the first `m` calls of each method
fn singles(m: u32) -> Vec<(Meth, u32, Dev)> {
    let mut v = vec![];
    for n in 0..m {
        for d in rem_devs() {
            v.push((Meth::Rem, n, d));
        }
        for d in chunk_devs() {
            v.push((Meth::Chunk, n, d));
        }
        for d in adv_devs() {
            v.push((Meth::Adv, n, d));
        }
    }
    v
}

pub struct Stats {
    pub execs: u64,
    pub panics: u64,
    pub returned: u64,
    pub oom: u64,
}

fn judge(name: &str, what: &str, out: &Out, rep: &mut Report) {
    // the liar's bytes are position-coded (0x10+i, tail 0x70+i): an output byte of the liar's data that no
    // chunk() call ever handed out was read out of bounds of the slices the implementation exposed
    let exposed = EXPOSED.load(std::sync::atomic::Ordering::Relaxed);
    for &b in out.iter() {
        let pos = if (0x10..0x10 + N as u8).contains(&b) {
            Some((b - 0x10) as usize)
        } else if (0x70..0x70 + TAIL as u8).contains(&b) {
            Some(N + (b - 0x70) as usize)
        } else {
            None
        };
        if let Some(pos) = pos {
            if exposed & (1 << pos) == 0 && name.contains("getters") {
                rep.violate(
                    "C17",
                    &format!("{}:unexposed-byte-in-output", name),
                    &format!("{} with {}: the result contains byte {:02x} of the implementation's private buffer although no chunk() call ever handed that byte out (read outside the returned slice): {:02x?}", name, what, b, out),
                    &format!("{{\"engine\":\"liar\",\"entry\":{},\"script\":{}}}", oracle::report::jstr(name), oracle::report::jstr(what)),
                );
                break;
            }
        }
    }
    // guard / poison / fresh-fill values must never reach an output
    if let Some(b) = out.iter().find(|&&b| b == oracle::CANARY || b == oracle::FILL_FREED || b == oracle::FILL_NEW) {
        rep.violate(
            "C17",
            &format!("{}:guard-byte-in-output", name),
            &format!("{} with {}: the result contains the byte {:02x} (a.5 = read past the end of an allocation, dd = freed memory, cd = uninitialised memory): {:02x?}", name, what, b, out),
            &format!("{{\"engine\":\"liar\",\"entry\":{},\"script\":{}}}", oracle::report::jstr(name), oracle::report::jstr(what)),
        );
    }
}

fn one(e: &Entry, script: &Script, parity_odd: bool, tracked: bool, rep: &mut Report, st: &mut Stats) {
    let what = format!("{:?}", script);
    oracle::sys::set_crash_note(&format!("liar entry={} script={}", e.name, what));
    if tracked {
        oracle::begin_execution(parity_odd);
    }
    st.execs += 1;
    EXPOSED.store(0, std::sync::atomic::Ordering::Relaxed);
    let mut out: Out = Vec::with_capacity(256);
    let r = oracle::subject(|| catch_unwind(AssertUnwindSafe(|| (e.run)(script, &mut out))));
    match r {
        Ok(()) => st.returned += 1,
        Err(p) => {
            st.panics += 1;
            oracle::subject(|| drop(p));
        }
    }
    if !tracked {
        return;
    }
    judge(e.name, &what, &out, rep);
    let replay = format!("{{\"engine\":\"liar\",\"entry\":{},\"script\":{}}}", oracle::report::jstr(e.name), oracle::report::jstr(&what));
    if let Some(v) = oracle::take_violation().or_else(oracle::check_canaries) {
        rep.violate("C17", &format!("{}:memory", e.name), &format!("{} with {}: {}", e.name, what, v), &replay);
    }
    let end = oracle::end_execution();
    if let Some(c) = end.corrupt {
        rep.violate("C17", &format!("{}:memory", e.name), &format!("{} with {}: {}", e.name, what, c), &replay);
    }
    if !end.leaked.is_empty() {
        rep.violate("C17", &format!("{}:leak", e.name), &format!("{} with {}: storage leaked after unwinding and dropping everything: {:?}", e.name, what, end.leaked), &replay);
    }
    if let Some(v) = oracle::take_violation() {
        rep.violate("C17", &format!("{}:memory", e.name), &format!("{} with {}: {}", e.name, what, v), &replay);
    }
}

pub fn run(tier: &str, parity_odd: bool, shard: usize, nshards: usize, rep: &mut Report) {
    let es = entries();
    let m = 6u32;
    let s1 = singles(m);
    let mut scripts: Vec<Script> = vec![vec![]];
    for s in &s1 {
        scripts.push(vec![*s]);
    }
    if tier == "thorough" {
        // all pairs of deviations among the first 8 calls of each method, and all triples among the first 3
        let s3 = singles(3);
        for i in 0..s3.len() {
            for j in i + 1..s3.len() {
                for k in j + 1..s3.len() {
                    let t = [s3[i], s3[j], s3[k]];
                    if (t[0].0, t[0].1) != (t[1].0, t[1].1) && (t[1].0, t[1].1) != (t[2].0, t[2].1) && (t[0].0, t[0].1) != (t[2].0, t[2].1) {
                        scripts.push(t.to_vec());
                    }
                }
            }
        }
        let s2 = singles(8);
        for i in 0..s2.len() {
            for j in i + 1..s2.len() {
                if (s2[i].0, s2[i].1) != (s2[j].0, s2[j].1) {
                    scripts.push(vec![s2[i], s2[j]]);
                }
            }
        }
    } else {
        // quick: pairs restricted to one lie about remaining() combined with one about chunk()/advance() on the first two calls
        let s2 = singles(2);
        for a in s2.iter().filter(|x| x.0 == Meth::Rem) {
            for b in s2.iter().filter(|x| x.0 != Meth::Rem) {
                scripts.push(vec![*a, *b]);
            }
        }
    }
    let mut st = Stats { execs: 0, panics: 0, returned: 0, oom: 0 };
    // warm-up
    {
        let mut ws = Stats { execs: 0, panics: 0, returned: 0, oom: 0 };
        let mut wr = Report::new("liar", "C17", "warmup");
        for e in &es {
            for sc in scripts.iter().take(40) {
                if sc.iter().any(|x| matches!(x.2, Dev::RemHuge | Dev::RemMax)) {
                    continue;
                }
                one(e, sc, parity_odd, false, &mut wr, &mut ws);
            }
        }
    }
    let mut idx = 0usize;
    for (ei, e) in es.iter().enumerate() {
        for sc in &scripts {
            idx += 1;
            if idx % nshards != shard {
                continue;
            }
            // a lie that makes the crate request an allocatable-but-huge size aborts the process
            // (allocation failure): run those in a forked child
            let huge = sc.iter().any(|x| matches!(x.2, Dev::RemHuge | Dev::RemMax));
            if huge {
                let what = format!("{:?}", sc);
                let (oc, text) = oracle::sys::fork_probe(|| {
                    let mut r2 = Report::new("liar", "C17", "probe");
                    let mut s2 = Stats { execs: 0, panics: 0, returned: 0, oom: 0 };
                    one(e, sc, parity_odd, true, &mut r2, &mut s2);
                    if let Some(v) = r2.violations.first() {
                        oracle::sys::probe_say(&format!("{}\t{}", v.case, v.msg));
                        1
                    } else {
                        0
                    }
                });
                st.execs += 1;
                use oracle::sys::ProbeOutcome::*;
                match oc {
                    Exit(0) => st.returned += 1,
                    Oom => st.oom += 1,
                    Exit(1) => {
                        let mut it = text.splitn(2, '\t');
                        let (c, m) = (it.next().unwrap_or("probe"), it.next().unwrap_or(""));
                        rep.violate("C17", c, m, &format!("{{\"engine\":\"liar\",\"entry\":{},\"script\":{}}}", oracle::report::jstr(e.name), oracle::report::jstr(&what)));
                    }
                    Exit(c) => rep.violate("C17", "probe-exit", &format!("{} with {}: probe exited with code {}", e.name, what, c), ""),
                    Crash(t) => rep.violate("C17", &format!("{}:crash", e.name), &format!("{} with {}: process crashed without an allocation failure: {}", e.name, what, t.trim()), &format!("{{\"engine\":\"liar\",\"entry\":{},\"script\":{}}}", oracle::report::jstr(e.name), oracle::report::jstr(&what))),
                }
            } else {
                one(e, sc, parity_odd, true, rep, &mut st);
            }
            if st.execs % 20_000 == 1 {
                rep.sample(format!("entry '{}' with deviations {:?}", e.name, sc));
            }
        }
        let _ = ei;
    }
    // ---- owners and iterators (small complete tables)
    if shard == 0 {
        for mode in 0..4u8 {
            for follow in 0..4u8 {
                oracle::begin_execution(parity_odd);
                oracle::sys::set_crash_note(&format!("liar owner mode={} follow={}", mode, follow));
                st.execs += 1;
                let mut out: Out = Vec::with_capacity(64);
                let r = oracle::subject(|| {
                    catch_unwind(AssertUnwindSafe(|| {
                        let o = LiarOwner { a: vec![0x11, 0x12, 0x13, 0x14], b: vec![0x21; 64], calls: std::cell::Cell::new(0), mode };
                        let b = Bytes::from_owner(o);
                        match follow {
                            0 => push_bytes(&mut out, &b),
                            1 => {
                                let c = b.clone();
                                let s = c.slice(..c.len().min(2));
                                push_bytes(&mut out, &s);
                                push_bytes(&mut out, &c.to_vec());
                            }
                            2 => {
                                let v: Vec<u8> = b.into();
                                push_bytes(&mut out, &v);
                            }
                            _ => {
                                let m = BytesMut::from(b);
                                push_bytes(&mut out, &m);
                            }
                        }
                    }))
                });
                match r {
                    Ok(()) => st.returned += 1,
                    Err(p) => {
                        st.panics += 1;
                        oracle::subject(|| drop(p));
                    }
                }
                let what = format!("owner mode {} then {}", mode, follow);
                judge("Bytes::from_owner(liar owner)", &what, &out, rep);
                if let Some(v) = oracle::take_violation().or_else(oracle::check_canaries) {
                    rep.violate("C17", "from_owner:memory", &format!("from_owner with {}: {}", what, v), "");
                }
                let end = oracle::end_execution();
                if !end.leaked.is_empty() || end.corrupt.is_some() {
                    rep.violate("C17", "from_owner:leak", &format!("from_owner with {}: {:?}", what, end), "");
                }
            }
        }
        // an owner whose destructor panics: the panic comes out of whichever call releases the last view; nothing may be
        // released twice, written after its release or leaked (the owner's own heap data is the owner's business)
        struct DropBomb(Vec<u8>);
        impl AsRef<[u8]> for DropBomb {
            fn as_ref(&self) -> &[u8] {
                &self.0
            }
        }
        impl Drop for DropBomb {
            fn drop(&mut self) {
                if !std::thread::panicking() {
                    panic!("owner destructor panics");
                }
            }
        }
        for clones in 0..2u8 {
            for follow in 0..6u8 {
                oracle::begin_execution(parity_odd);
                oracle::sys::set_crash_note(&format!("liar owner with a panicking destructor clones={} follow={}", clones, follow));
                st.execs += 1;
                let mut out: Out = Vec::with_capacity(64);
                let r = oracle::subject(|| {
                    catch_unwind(AssertUnwindSafe(|| {
                        let b = Bytes::from_owner(DropBomb(vec![0x11, 0x12, 0x13, 0x14]));
                        let keep = if clones == 1 { Some(b.clone()) } else { None };
                        let r = catch_unwind(AssertUnwindSafe(|| match follow {
                            0 => drop(b),
                            1 => {
                                let v: Vec<u8> = b.into();
                                push_bytes(&mut out, &v);
                            }
                            2 => {
                                let m = BytesMut::from(b);
                                push_bytes(&mut out, &m);
                            }
                            3 => {
                                let m = b.try_into_mut();
                                push_bytes(&mut out, &[m.is_ok() as u8]);
                            }
                            4 => {
                                let mut b = b;
                                b.clear();
                                let m = BytesMut::from(b);
                                push_bytes(&mut out, &m);
                            }
                            _ => {
                                let mut b = b;
                                let t = b.split_off(2);
                                drop(b);
                                push_bytes(&mut out, &t);
                            }
                        }));
                        // the other handle (if any) is released afterwards: the destructor runs (and panics) here instead
                        let r2 = catch_unwind(AssertUnwindSafe(|| drop(keep)));
                        if let Err(e) = r {
                            std::panic::resume_unwind(e);
                        }
                        if let Err(e) = r2 {
                            std::panic::resume_unwind(e);
                        }
                    }))
                });
                match r {
                    Ok(()) => st.returned += 1,
                    Err(p) => {
                        st.panics += 1;
                        oracle::subject(|| drop(p));
                    }
                }
                let what = format!("an owner whose destructor panics, {} extra handle(s), consumer {}", clones, follow);
                judge("Bytes::from_owner(owner with panicking Drop)", &what, &out, rep);
                if let Some(v) = oracle::take_violation().or_else(oracle::check_canaries) {
                    rep.violate("C17", "from_owner-drop-panic:memory", &format!("from_owner with {}: {}", what, v), "");
                }
                let end = oracle::end_execution();
                if !end.leaked.is_empty() || end.corrupt.is_some() {
                    rep.violate("C17", "from_owner-drop-panic:leak", &format!("from_owner with {}: {:?}", what, end), "");
                }
                if let Some(v) = oracle::take_violation() {
                    rep.violate("C17", "from_owner-drop-panic:memory", &format!("from_owner with {}: {}", what, v), "");
                }
            }
        }
        // io::Cursor<T> over an owner whose as_ref() answers a different slice per call (short 4 bytes / long 64 bytes):
        // every Buf method of the cursor and the consumers built on it
        for mode in [0u8, 2, 3, 4, 5, 6] {
            for pos in [0u64, 2, 4, 5, 40, 64, 70] {
                for follow in 0..12u8 {
                    oracle::begin_execution(parity_odd);
                    oracle::sys::set_crash_note(&format!("liar cursor owner mode={} pos={} follow={}", mode, pos, follow));
                    st.execs += 1;
                    let mut out: Out = Vec::with_capacity(256);
                    let r = oracle::subject(|| {
                        catch_unwind(AssertUnwindSafe(|| {
                            let o = LiarOwner { a: vec![0x11, 0x12, 0x13, 0x14], b: (0..64u8).map(|i| 0x20 + (i & 0x3f)).collect(), calls: std::cell::Cell::new(0), mode };
                            let mut c = std::io::Cursor::new(o);
                            c.set_position(pos);
                            match follow {
                                0 => push_bytes(&mut out, c.chunk()),
                                1 => {
                                    let _ = c.remaining();
                                    push_bytes(&mut out, c.chunk());
                                }
                                2 => push_val(&mut out, c.get_u8() as u128, 1),
                                3 => push_val(&mut out, c.get_u32() as u128, 4),
                                4 => {
                                    let mut d = [0u8; 6];
                                    c.copy_to_slice(&mut d);
                                    push_bytes(&mut out, &d);
                                }
                                5 => {
                                    let b = c.copy_to_bytes(3);
                                    push_bytes(&mut out, &b);
                                }
                                6 => {
                                    c.advance(2);
                                    push_bytes(&mut out, c.chunk());
                                }
                                7 => {
                                    let mut dst = [IoSlice::new(&[]); 2];
                                    let n = c.chunks_vectored(&mut dst);
                                    for sl in &dst[..n] {
                                        push_bytes(&mut out, sl);
                                    }
                                }
                                8 => {
                                    let mut m = BytesMut::with_capacity(2);
                                    m.put(&mut c);
                                    push_bytes(&mut out, &m);
                                }
                                9 => {
                                    let t = Buf::take(&mut c, 5);
                                    push_bytes(&mut out, t.chunk());
                                }
                                10 => {
                                    let mut ch = Buf::chain(&mut c, &b"zz"[..]);
                                    let b = ch.copy_to_bytes(5);
                                    push_bytes(&mut out, &b);
                                }
                                _ => {
                                    let mut v: Vec<u8> = Vec::new();
                                    let mut rd = Buf::reader(&mut c);
                                    let mut d = [0u8; 7];
                                    let n = rd.read(&mut d).unwrap_or(0);
                                    v.extend_from_slice(&d[..n.min(7)]);
                                    push_bytes(&mut out, &v);
                                }
                            }
                        }))
                    });
                    match r {
                        Ok(()) => st.returned += 1,
                        Err(p) => {
                            st.panics += 1;
                            oracle::subject(|| drop(p));
                        }
                    }
                    let what = format!("cursor over owner mode {} at position {} then consumer {}", mode, pos, follow);
                    judge("io::Cursor<liar owner>", &what, &out, rep);
                    if let Some(v) = oracle::take_violation().or_else(oracle::check_canaries) {
                        rep.violate("C17", "cursor-owner:memory", &format!("io::Cursor over an inconsistent AsRef with {}: {}", what, v), "");
                    }
                    let end = oracle::end_execution();
                    if !end.leaked.is_empty() || end.corrupt.is_some() {
                        rep.violate("C17", "cursor-owner:leak", &format!("io::Cursor over an inconsistent AsRef with {}: {:?}", what, end), "");
                    }
                }
            }
        }
        // ---- a Buf whose chunks_vectored over- or under-reports the number of slices it filled, behind the crate's adapters
        static VSENT: [u8; 3] = [0x5e, 0x5e, 0x5e];
        for claim in [0usize, 1, 2, 15, 16, 17, 18, 40, 1000, usize::MAX] {
            for n in [0usize, 1, 2, 16, 17, 18, 40] {
                for wrap in 0..6u8 {
                    oracle::begin_execution(parity_odd);
                    oracle::sys::set_crash_note(&format!("liar chunks_vectored claim={} dst={} wrap={}", claim, n, wrap));
                    st.execs += 1;
                    let mut bad: Option<String> = None;
                    let r = oracle::subject(|| {
                        catch_unwind(AssertUnwindSafe(|| {
                            let liar = VecLiar { data: vec![0x31, 0x32, 0x33, 0x34, 0x35, 0x36], pos: 1, claim };
                            let (lo, hi) = (liar.data.as_ptr() as usize, liar.data.as_ptr() as usize + liar.data.len());
                            static OTHER: [u8; 2] = [0x41, 0x42];
                            let (olo, ohi) = (OTHER.as_ptr() as usize, OTHER.as_ptr() as usize + 2);
                            let mut dst: Vec<IoSlice<'_>> = (0..n).map(|_| IoSlice::new(&VSENT)).collect();
                            let mut tk;
                            let mut ch1;
                            let mut ch2;
                            let mut bx: Box<dyn Buf>;
                            let tr;
                            let mut lr = VecLiar { data: vec![0x31, 0x32, 0x33, 0x34, 0x35, 0x36], pos: 1, claim };
                            let (lo2, hi2) = (lr.data.as_ptr() as usize, lr.data.as_ptr() as usize + lr.data.len());
                            let cnt = match wrap {
                                0 => {
                                    tk = Buf::take(liar, 4);
                                    tk.chunks_vectored(&mut dst)
                                }
                                1 => {
                                    tk = Buf::take(liar, usize::MAX);
                                    tk.chunks_vectored(&mut dst)
                                }
                                2 => {
                                    ch1 = Buf::chain(liar, &OTHER[..]);
                                    ch1.chunks_vectored(&mut dst)
                                }
                                3 => {
                                    ch2 = Buf::chain(&OTHER[..], liar);
                                    ch2.chunks_vectored(&mut dst)
                                }
                                4 => {
                                    bx = Box::new(liar);
                                    bx.chunks_vectored(&mut dst)
                                }
                                _ => {
                                    drop(liar);
                                    let r: &mut VecLiar = &mut lr;
                                    tr = Buf::take(r, 3);
                                    tr.chunks_vectored(&mut dst)
                                }
                            };
                            // every slot the adapter claims to have filled (and that exists) must point into memory
                            // one of the buffers really owns; the harness only compares addresses, it never dereferences
                            for i in 0..cnt.min(n) {
                                let (p, l) = (dst[i].as_ptr() as usize, dst[i].len());
                                let ok = (p >= lo && p + l <= hi) || (p >= lo2 && p + l <= hi2) || (p >= olo && p + l <= ohi) || (p == VSENT.as_ptr() as usize && l == 3) || l == 0;
                                if !ok && bad.is_none() {
                                    bad = Some(format!("slot {} of {} claimed slots is an IoSlice at {:#x} of {} bytes, outside every buffer", i, cnt, p, l));
                                }
                            }
                        }))
                    });
                    match r {
                        Ok(()) => st.returned += 1,
                        Err(p) => {
                            st.panics += 1;
                            oracle::subject(|| drop(p));
                        }
                    }
                    let what = format!("chunks_vectored that returns {} into a dst of {} slots, adapter {}", claim, n, wrap);
                    if let Some(b) = bad {
                        rep.violate("C17", "vectored-count:wild-slice", &format!("{}: {}", what, b), "");
                    }
                    if let Some(v) = oracle::take_violation().or_else(oracle::check_canaries) {
                        rep.violate("C17", "vectored-count:memory", &format!("{}: {}", what, v), "");
                    }
                    let end = oracle::end_execution();
                    if !end.leaked.is_empty() || end.corrupt.is_some() {
                        rep.violate("C17", "vectored-count:leak", &format!("{}: {:?}", what, end), "");
                    }
                }
            }
        }
        // ---- Extend<&u8> with lying size hints (exact-looking hints that are too small are the interesting ones)
        for left in [5usize, 10, 20, 40] {
            for hint in [(0usize, None), (3, Some(3)), (9, Some(9)), (12, Some(12)), (33, Some(33)), (50, Some(50)), (left + 1, Some(left + 1))] {
                for start in 0..3u8 {
                    oracle::begin_execution(parity_odd);
                    oracle::sys::set_crash_note(&format!("liar ref-iter left={} hint={:?} start={}", left, hint, start));
                    st.execs += 1;
                    let mut out: Out = Vec::with_capacity(128);
                    let r = oracle::subject(|| {
                        catch_unwind(AssertUnwindSafe(|| {
                            let it = LiarRefIter { left, hint, produced: 0 };
                            let mut m = match start {
                                0 => BytesMut::new(),
                                1 => BytesMut::with_capacity(2),
                                _ => {
                                    let mut m = BytesMut::with_capacity(16);
                                    m.extend_from_slice(&[0x21; 16]);
                                    m
                                }
                            };
                            m.extend(it);
                            push_bytes(&mut out, &m);
                        }))
                    });
                    match r {
                        Ok(()) => st.returned += 1,
                        Err(p) => {
                            st.panics += 1;
                            oracle::subject(|| drop(p));
                        }
                    }
                    let what = format!("Extend<&u8> with an iterator that yields {} items and hints {:?}, start {}", left, hint, start);
                    judge("Extend<&u8>(liar iterator)", &what, &out, rep);
                    if let Some(v) = oracle::take_violation().or_else(oracle::check_canaries) {
                        rep.violate("C17", "ref-iter:memory", &format!("{}: {}", what, v), "");
                    }
                    let end = oracle::end_execution();
                    if !end.leaked.is_empty() || end.corrupt.is_some() {
                        rep.violate("C17", "ref-iter:leak", &format!("{}: {:?}", what, end), "");
                    }
                }
            }
        }
        let hints: Vec<(usize, Option<usize>)> = vec![(0, None), (0, Some(0)), (3, Some(3)), (9, Some(9)), (1 << 16, None), (5, Some(2)), (usize::MAX, None), (usize::MAX, Some(usize::MAX))];
        for (hi, hint) in hints.iter().enumerate() {
            for panic_at in [None, Some(0usize), Some(3)] {
                for which in 0..5u8 {
                    oracle::begin_execution(parity_odd);
                    oracle::sys::set_crash_note(&format!("liar iter hint={:?} panic_at={:?} which={}", hint, panic_at, which));
                    st.execs += 1;
                    let mut out: Out = Vec::with_capacity(64);
                    let r = oracle::subject(|| {
                        catch_unwind(AssertUnwindSafe(|| {
                            let it = LiarIter { left: 5, hint: *hint, panic_at, produced: 0 };
                            match which {
                                0 => {
                                    let mut m = BytesMut::with_capacity(2);
                                    m.extend(it);
                                    push_bytes(&mut out, &m);
                                }
                                1 => {
                                    let m: BytesMut = it.collect();
                                    push_bytes(&mut out, &m);
                                }
                                2 => {
                                    let b: Bytes = it.collect();
                                    push_bytes(&mut out, &b);
                                }
                                3 => {
                                    let mut m = BytesMut::new();
                                    let v: Vec<u8> = it.collect();
                                    m.extend(v.iter());
                                    push_bytes(&mut out, &m);
                                }
                                _ => {
                                    let mut m = BytesMut::new();
                                    let v: Vec<u8> = it.collect();
                                    m.extend(vec![Bytes::from(v.clone()), Bytes::from(v)]);
                                    push_bytes(&mut out, &m);
                                }
                            }
                        }))
                    });
                    match r {
                        Ok(()) => st.returned += 1,
                        Err(p) => {
                            st.panics += 1;
                            oracle::subject(|| drop(p));
                        }
                    }
                    let what = format!("iterator hint #{} {:?} panic_at {:?} entry {}", hi, hint, panic_at, which);
                    judge("Extend/FromIterator(liar iterator)", &what, &out, rep);
                    if let Some(v) = oracle::take_violation().or_else(oracle::check_canaries) {
                        rep.violate("C17", "iter:memory", &format!("{}: {}", what, v), "");
                    }
                    let end = oracle::end_execution();
                    if !end.leaked.is_empty() || end.corrupt.is_some() {
                        rep.violate("C17", "iter:leak", &format!("{}: {:?}", what, end), "");
                    }
                }
            }
        }
    }
    rep.evaluations = st.execs;
    rep.states = st.execs;
    rep.transitions = st.execs;
    rep.traces = st.execs;
    rep.distinct_nontrivial = scripts.len() as u64;
    rep.extra_num("entry_points", es.len() as u64);
    rep.extra_num("scripts", scripts.len() as u64);
    rep.extra_num("executions_that_panicked", st.panics);
    rep.extra_num("executions_that_returned", st.returned);
    rep.extra_num("executions_that_hit_allocation_failure", st.oom);
    let _ = (UninitSlice::len as fn(&UninitSlice) -> usize,);
}
