//! Engine A core (DESIGN.md §2.2): a pool of real `Bytes` / `BytesMut` handles driven in
//! lock-step with a reference model (one independent `Vec<u8>` per handle), under the
//! oracle allocator. Every operation is executed under `catch_unwind`, followed by the
//! oracles of C01 C02 C03 C04 C07 C08 C13.
use bytes::{Buf, BufMut, Bytes, BytesMut};
use std::panic::{catch_unwind, AssertUnwindSafe};

pub const MAXH: usize = 4;
pub static STATIC4: [u8; 4] = [0xE1, 0xE2, 0xE3, 0xE4];
pub static FOREIGN: [u8; 2] = [0x99, 0x98];
pub const REGION_STATIC: u32 = 1;

// ------------------------------------------------------------------ instrumented owner

#[derive(Clone, Copy, Default, Debug, PartialEq, Eq)]
pub struct OwnerStat {
    pub created: bool,
    pub as_ref_calls: u32,
    pub drops: u32,
    pub fam: u32,
}
pub static mut OWNERS: [OwnerStat; 4] = [OwnerStat { created: false, as_ref_calls: 0, drops: 0, fam: 0 }; 4];
pub fn owners() -> &'static mut [OwnerStat; 4] {
    unsafe { &mut *core::ptr::addr_of_mut!(OWNERS) }
}
pub struct Owner {
    data: Vec<u8>,
    id: usize,
    panic_in_as_ref: bool,
    /// what every call after the first answers (a safe AsRef may answer differently per call)
    alt: Option<Vec<u8>>,
    /// the owner's destructor panics (after it has counted itself as dropped)
    panic_in_drop: bool,
}
impl AsRef<[u8]> for Owner {
    fn as_ref(&self) -> &[u8] {
        owners()[self.id].as_ref_calls += 1;
        if self.panic_in_as_ref {
            panic!("owner as_ref panics");
        }
        match &self.alt {
            Some(a) if owners()[self.id].as_ref_calls > 1 => a,
            _ => &self.data,
        }
    }
}
impl Drop for Owner {
    fn drop(&mut self) {
        owners()[self.id].drops += 1;
        if self.panic_in_drop && !std::thread::panicking() {
            panic!("owner drop panics");
        }
    }
}

// ------------------------------------------------------------------ operations

#[derive(Clone, Copy, PartialEq, Eq, Hash, Debug, PartialOrd, Ord)]
#[repr(u8)]
pub enum K {
    Root,
    BClone,
    BSlice,
    BSliceIncl,
    BSliceRef,
    BSliceRefForeign,
    BSplitOff,
    BSplitTo,
    BTruncate,
    BClear,
    BAdvance,
    BCopyToBytes,
    BTryIntoMut,
    BIntoMut,
    BIntoVec,
    BDrop,
    MSplitOff,
    MSplitTo,
    MSplit,
    MTruncate,
    MClear,
    MAdvance,
    MResize,
    MReserve,
    MTryReclaim,
    MExtend,
    MPutU8,
    MWrite,
    MFillSpare,
    MUnsplit,
    MFreeze,
    MIntoVec,
    MClone,
    MCopyToBytes,
    MDrop,
    MPutBytes,
    MPutBuf,
    MChunkMut,
    MWriteStr,
    MExtendIter,
    BIntoIter,
    MIntoIter,
    BSliceBounds,
    MExtendLie,
    MExtendPanic,
    MUninitApi,
    MPutUnder,
}
pub const ALL_K: &[K] = &[
    K::Root, K::BClone, K::BSlice, K::BSliceIncl, K::BSliceRef, K::BSliceRefForeign, K::BSplitOff, K::BSplitTo, K::BTruncate, K::BClear,
    K::BAdvance, K::BCopyToBytes, K::BTryIntoMut, K::BIntoMut, K::BIntoVec, K::BDrop, K::MSplitOff, K::MSplitTo, K::MSplit, K::MTruncate,
    K::MClear, K::MAdvance, K::MResize, K::MReserve, K::MTryReclaim, K::MExtend, K::MPutU8, K::MWrite, K::MFillSpare, K::MUnsplit,
    K::MFreeze, K::MIntoVec, K::MClone, K::MCopyToBytes, K::MDrop, K::MPutBytes, K::MPutBuf, K::MChunkMut, K::MWriteStr, K::MExtendIter, K::BIntoIter, K::MIntoIter, K::BSliceBounds, K::MExtendLie, K::MExtendPanic, K::MUninitApi, K::MPutUnder,
];
pub fn k_from_str(s: &str) -> Option<K> {
    ALL_K.iter().cloned().find(|k| format!("{:?}", k) == s)
}

/// `s` target slot, `t` second slot (slice_ref source / unsplit other), `a`, `b` arguments.
/// Root: a = root kind, b = payload length. BIntoVec/MIntoVec: a = 1 -> re-adopt the Vec.
#[derive(Clone, Copy, PartialEq, Eq, Hash, Debug)]
pub struct Op {
    pub k: K,
    pub s: u8,
    pub t: u8,
    pub a: usize,
    pub b: usize,
}
impl Op {
    pub fn new(k: K, s: usize, t: usize, a: usize, b: usize) -> Op {
        Op { k, s: s as u8, t: t as u8, a, b }
    }
    pub fn to_json(&self) -> String {
        format!("[\"{:?}\",{},{},{},{}]", self.k, self.s, self.t, self.a, self.b)
    }
}
pub fn hist_json(h: &[Op]) -> String {
    format!("[{}]", h.iter().map(|o| o.to_json()).collect::<Vec<_>>().join(","))
}

// root kinds
pub const R_BNEW: usize = 0;
pub const R_BSTATIC: usize = 1;
pub const R_BVEC_EXACT: usize = 2;
pub const R_BVEC_SPARE: usize = 3;
pub const R_BBOX: usize = 4;
pub const R_BOWNER: usize = 5;
pub const R_BCOPY: usize = 6;
pub const R_BVEC_EMPTY_CAP: usize = 7;
pub const R_MNEW: usize = 8;
pub const R_MCAP: usize = 9;
pub const R_MFROM: usize = 10;
pub const R_MZEROED: usize = 11;
pub const R_MFROMITER: usize = 12;
pub const R_BOWNER_PANIC: usize = 13;
/// uniquely held *shared* BytesMut with a front offset (with_capacity(n+4), put n+1, split_to(1) dropped)
pub const R_MSHARED_OFF: usize = 14;
/// capacity >= 64 so that size-relative policies are active: BytesMut::with_capacity(128) + put n
pub const R_MBIG: usize = 15;
/// Bytes::from(Vec) with len n and capacity 128
pub const R_BBIG: usize = 16;
/// frozen unique shared BytesMut with a front offset
pub const R_BFROZEN_OFF: usize = 17;
/// capacity >= 1024 so that the original-capacity classes are active: BytesMut::with_capacity(1024) + put n
pub const R_MKILO: usize = 18;
/// shared form, sole owner, front offset, and grown in place after the promotion (the control block's Vec still has the
/// promotion-time length): with_capacity(n+6), put 1+n, split_to(1) dropped, put 2 more
pub const R_MSHARED_GROWN: usize = 19;
/// from_owner with an owner whose as_ref() answers with its 4 exactly-allocated bytes the first time and with a different,
/// longer buffer on every later call (the documented contract: as_ref is called once and that answer is the view)
pub const R_BOWNER_FLAKY: usize = 20;
/// from_owner(Vec<u8>): a plain Vec as the owner (owner-backed all the same: never unique, never converted in place)
pub const R_BOWNER_VEC: usize = 21;
/// Bytes::from(Vec) with len n and capacity n + 1 (shared control block from the start; with n = 1024 offsets reach 1023)
pub const R_BKILO: usize = 22;
/// BytesMut::with_capacity(32768) + put n: above the 16 KiB original-capacity class
pub const R_M32K: usize = 23;
/// from_owner with an owner whose destructor panics: the panic surfaces in whichever call releases the last view; the
/// block that held the owner must still be released
pub const R_BOWNER_DROP_PANIC: usize = 24;
/// BytesMut in the shared form from the start, full (len == capacity), sole handle: from(&[u8]) + split_off(len) dropped
pub const R_MSHARED_FULL: usize = 25;
/// the remaining constructors (their representations coincide with other roots; explored to a small depth)
pub const R_BFROM_STRING: usize = 26;
pub const R_BFROMITER: usize = 27;
pub const R_MFROM_STR: usize = 28;
pub const R_MFROMITER_REF: usize = 29;
pub const N_ROOTS: usize = 30;
pub fn root_name(r: usize) -> &'static str {
    [
        "Bytes::new", "Bytes::from_static", "Bytes::from(Vec len==cap)", "Bytes::from(Vec spare)", "Bytes::from(Box<[u8]>)", "Bytes::from_owner",
        "Bytes::copy_from_slice", "Bytes::from(Vec empty, cap 3)", "BytesMut::new", "BytesMut::with_capacity+put", "BytesMut::from(&[u8])", "BytesMut::zeroed",
        "BytesMut::from_iter", "Bytes::from_owner(as_ref panics)", "BytesMut shared+unique+offset", "BytesMut::with_capacity(128)+put", "Bytes::from(Vec cap 128)",
        "Bytes frozen from shared+unique+offset BytesMut", "BytesMut::with_capacity(1024)+put", "BytesMut shared+unique+offset, grown after promotion",
        "Bytes::from_owner(as_ref answers differently per call)", "Bytes::from_owner(Vec<u8>)", "Bytes::from(Vec len n, cap n+1)", "BytesMut::with_capacity(32768)+put",
        "Bytes::from_owner(drop panics)", "BytesMut shared+unique+full",
        "Bytes::from(String)", "Bytes::from_iter", "BytesMut::from(&str)", "BytesMut::from_iter(&u8)",
    ][r]
}

pub enum H {
    B(Bytes),
    M(BytesMut),
}
impl H {
    pub fn is_b(&self) -> bool {
        matches!(self, H::B(_))
    }
    pub fn bytes(&self) -> &[u8] {
        match self {
            H::B(b) => &b[..],
            H::M(m) => &m[..],
        }
    }
    pub fn ptr(&self) -> usize {
        match self {
            H::B(b) => b.as_ptr() as usize,
            H::M(m) => m.as_ptr() as usize,
        }
    }
    pub fn len(&self) -> usize {
        match self {
            H::B(b) => b.len(),
            H::M(m) => m.len(),
        }
    }
    pub fn cap(&self) -> usize {
        match self {
            H::B(b) => b.len(),
            H::M(m) => m.capacity(),
        }
    }
}

pub struct Slot {
    pub h: H,
    pub model: Vec<u8>,
    /// lineage: bit set of root families this handle may share storage with
    pub fam: u32,
}

#[derive(Clone, Debug, PartialEq, Eq)]
pub struct Snap {
    pub present: bool,
    pub is_b: bool,
    pub ptr: usize,
    pub len: usize,
    pub cap: usize,
    pub bytes: Vec<u8>,
}

#[derive(Clone, Debug)]
pub struct Vio {
    pub property: &'static str,
    pub case: String,
    pub msg: String,
}

/// What one step observably did (address-free; used for the C16 configuration diff).
#[derive(Clone, Debug, Default, PartialEq, Eq, Hash)]
pub struct Observed {
    pub panicked: bool,
    pub ret: i64,
}

pub struct World {
    pub slots: [Option<Slot>; MAXH],
    pub next_byte: u32,
    pub next_fam: u32,
    pub roots_used: u32,
    pub vios: Vec<Vio>,
    pub check: bool,
    pub last: Observed,
    /// per-op coverage flags (which reserve_inner branch etc.), filled from hook descriptors
    pub cover: u64,
    pub huge_seen: bool,
    /// number of steps of this history that panicked (caught)
    pub panics_seen: u32,
    /// (address, length, family) of the memory every owner root handed to from_owner
    pub owner_ranges: Vec<(usize, usize, u32)>,
}

fn slot_none() -> Option<Slot> {
    None
}

pub const ISIZE_MAX: usize = isize::MAX as usize;

impl World {
    pub fn new() -> World {
        *owners() = [OwnerStat::default(); 4];
        World {
            slots: [slot_none(), slot_none(), slot_none(), slot_none()],
            next_byte: 0,
            next_fam: 0,
            roots_used: 0,
            vios: vec![],
            check: true,
            last: Observed::default(),
            cover: 0,
            huge_seen: false,
            panics_seen: 0,
            owner_ranges: vec![],
        }
    }

    fn vio(&mut self, property: &'static str, case: &str, msg: String) {
        if self.vios.len() < 16 {
            self.vios.push(Vio { property, case: case.to_string(), msg });
        }
    }

    /// Globally unique payload bytes: byte k of the m-th buffer never repeats within a
    /// history (values avoid the allocator's fill patterns).
    pub fn fresh(&mut self, n: usize) -> Vec<u8> {
        let mut v = Vec::with_capacity(n);
        for _ in 0..n {
            loop {
                let b = (self.next_byte % 251) as u8 + 1;
                self.next_byte += 1;
                if b != oracle::FILL_NEW && b != oracle::FILL_FREED && b != oracle::CANARY && b < 0xE0 {
                    v.push(b);
                    break;
                }
            }
        }
        v
    }

    pub fn free_slot(&self, limit: usize) -> Option<usize> {
        (0..limit.min(MAXH)).find(|&i| self.slots[i].is_none())
    }
    pub fn live(&self) -> usize {
        self.slots.iter().filter(|s| s.is_some()).count()
    }

    fn put(&mut self, h: H, model: Vec<u8>, fam: u32) -> usize {
        let s = (0..MAXH).find(|&i| self.slots[i].is_none()).expect("no free slot (harness bug)");
        self.slots[s] = Some(Slot { h, model, fam });
        s
    }

    pub fn snaps(&self) -> Vec<Snap> {
        self.slots
            .iter()
            .map(|s| match s {
                Some(s) => {
                    // read the bytes only if the view lies inside memory we know (a handle corrupted by
                    // a failed call must not crash the harness: the mismatch in ptr/len is reported)
                    let (p, l) = (s.h.ptr(), s.h.len());
                    let readable = l == 0
                        || oracle::find_live(p).map_or(false, |bi| {
                            let b = oracle::blocks()[bi];
                            p + l <= b.user + b.size
                        })
                        || oracle::find_region(p).map_or(false, |r| p + l <= r.base + r.len);
                    Snap { present: true, is_b: s.h.is_b(), ptr: p, len: l, cap: s.h.cap(), bytes: if readable { s.h.bytes().to_vec() } else { vec![0xBD; 1] } }
                }
                None => Snap { present: false, is_b: false, ptr: 0, len: 0, cap: 0, bytes: vec![] },
            })
            .collect()
    }

    fn b(&mut self, s: usize) -> &mut Bytes {
        match &mut self.slots[s].as_mut().unwrap().h {
            H::B(b) => b,
            _ => panic!("harness bug: slot {} is not Bytes", s),
        }
    }
    fn m(&mut self, s: usize) -> &mut BytesMut {
        match &mut self.slots[s].as_mut().unwrap().h {
            H::M(m) => m,
            _ => panic!("harness bug: slot {} is not BytesMut", s),
        }
    }
    fn model(&mut self, s: usize) -> &mut Vec<u8> {
        &mut self.slots[s].as_mut().unwrap().model
    }
    fn fam(&self, s: usize) -> u32 {
        self.slots[s].as_ref().unwrap().fam
    }
    fn take_b(&mut self, s: usize) -> (Bytes, Vec<u8>, u32) {
        let sl = self.slots[s].take().unwrap();
        match sl.h {
            H::B(b) => (b, sl.model, sl.fam),
            _ => panic!("harness bug"),
        }
    }
    fn take_m(&mut self, s: usize) -> (BytesMut, Vec<u8>, u32) {
        let sl = self.slots[s].take().unwrap();
        match sl.h {
            H::M(m) => (m, sl.model, sl.fam),
            _ => panic!("harness bug"),
        }
    }

    /// Run a crate call: subject window open, allocator events cleared, panics caught.
    /// The panic payload (allocated inside the window) is dropped here, inside the
    /// window bookkeeping of the allocator (it is a normal free).
    fn call<R>(&mut self, f: impl FnOnce(&mut World) -> R) -> Result<R, ()> {
        oracle::clear_events();
        oracle::enter_subject();
        let r = catch_unwind(AssertUnwindSafe(|| f(self)));
        oracle::exit_subject();
        match r {
            Ok(v) => Ok(v),
            Err(p) => {
                drop(p);
                Err(())
            }
        }
    }

    fn byte_buffer_allocated() -> bool {
        oracle::events().iter().any(|e| e.is_alloc && e.align == 1)
    }
    fn any_alloc_event() -> bool {
        !oracle::events().is_empty()
    }

    // -------------------------------------------------------------- the step function

    /// Execute one operation on implementation and model; run the per-operation
    /// oracles (C01 returns, C04 promises, C07, C13) when `self.check`.
    pub fn step(&mut self, op: Op) {
        let s = op.s as usize;
        let pre = if self.check { self.snaps() } else { vec![] };
        self.last = Observed::default();
        let pre_unique: bool = match (op.k, &self.slots.get(s).and_then(|x| x.as_ref())) {
            (K::BTryIntoMut, Some(sl)) | (K::BIntoMut, Some(sl)) => match &sl.h {
                H::B(b) => b.is_unique(),
                _ => false,
            },
            _ => false,
        };
        // "uniquely held" by the history, whatever is_unique() says: a non-empty view of a crate-allocated block
        // (not static, not owner-backed) and no other live handle was ever derived from or merged with it
        let model_unique: bool = match (op.k, &self.slots.get(s).and_then(|x| x.as_ref())) {
            (K::BTryIntoMut, Some(sl)) | (K::BIntoMut, Some(sl)) => match &sl.h {
                H::B(b) => {
                    let related = (0..MAXH).any(|j| j != s && self.slots[j].as_ref().map_or(false, |o| o.fam & sl.fam != 0));
                    !b.is_empty() && !related && oracle::find_live(b.as_ptr() as usize).map_or(false, |bi| !self.is_owner_block(bi))
                }
                _ => false,
            },
            _ => false,
        };
        let drops_before: u32 = owners().iter().map(|o| o.drops).sum();
        let mut owner_drop_panic = false;
        // `expect_panic`: does the documented contract say this call panics?
        let mut expect_panic = false;
        let mut panicked = false;
        let mut zero_copy_listed = false; // C07 applies to this call
        match op.k {
            K::Root => {
                self.roots_used += 1;
                let fam = 1u32 << self.next_fam;
                self.next_fam += 1;
                let n = op.b;
                let d = self.fresh(n);
                let kind = op.a;
                let r = self.call(|_w| -> Option<H> {
                    Some(match kind {
                        R_BNEW => H::B(Bytes::new()),
                        R_BSTATIC => H::B(Bytes::from_static(&STATIC4[..n.min(4)])),
                        R_BVEC_EXACT => H::B(Bytes::from(d.clone())),
                        R_BVEC_SPARE => {
                            let mut v = Vec::with_capacity(n + 2);
                            v.extend_from_slice(&d);
                            H::B(Bytes::from(v))
                        }
                        R_BBOX => H::B(Bytes::from(d.clone().into_boxed_slice())),
                        R_BOWNER | R_BOWNER_PANIC | R_BOWNER_DROP_PANIC => {
                            let id = owners().iter().position(|o| !o.created).unwrap_or(3);
                            owners()[id] = OwnerStat { created: true, as_ref_calls: 0, drops: 0, fam };
                            let o = Owner { data: d.clone(), id, panic_in_as_ref: kind == R_BOWNER_PANIC, alt: None, panic_in_drop: kind == R_BOWNER_DROP_PANIC };
                            H::B(Bytes::from_owner(o))
                        }
                        R_BOWNER_FLAKY => {
                            let id = owners().iter().position(|o| !o.created).unwrap_or(3);
                            owners()[id] = OwnerStat { created: true, as_ref_calls: 0, drops: 0, fam };
                            let mut alt = Vec::with_capacity(12);
                            alt.extend_from_slice(&[0xF0, 0xF1, 0xF2, 0xF3, 0xF4, 0xF5, 0xF6, 0xF7, 0xF8, 0xF9, 0xFA, 0xFB]);
                            let o = Owner { data: d.clone(), id, panic_in_as_ref: false, alt: Some(alt), panic_in_drop: false };
                            H::B(Bytes::from_owner(o))
                        }
                        R_BOWNER_VEC => H::B(Bytes::from_owner(d.clone())),
                        R_BKILO => {
                            let mut v = Vec::with_capacity(n + 1);
                            v.extend_from_slice(&d);
                            H::B(Bytes::from(v))
                        }
                        R_BFROM_STRING | R_MFROM_STR => {
                            // ASCII text with the root's fresh byte values folded into the printable range
                            let txt: String = d.iter().map(|&b| (b'A' + (b % 26)) as char).collect();
                            if kind == R_BFROM_STRING {
                                H::B(Bytes::from(txt))
                            } else {
                                H::M(BytesMut::from(&txt[..]))
                            }
                        }
                        R_BFROMITER => H::B(d.iter().cloned().collect::<Bytes>()),
                        R_MFROMITER_REF => H::M(d.iter().collect::<BytesMut>()),
                        R_MSHARED_FULL => {
                            let mut m = BytesMut::from(&d[..]);
                            drop(m.split_off(n));
                            H::M(m)
                        }
                        R_M32K => {
                            let mut m = BytesMut::with_capacity(32768);
                            m.put_slice(&d);
                            H::M(m)
                        }
                        R_BCOPY => H::B(Bytes::copy_from_slice(&d)),
                        R_BVEC_EMPTY_CAP => H::B(Bytes::from(Vec::with_capacity(3))),
                        R_MNEW => H::M(BytesMut::new()),
                        R_MCAP => {
                            let mut m = BytesMut::with_capacity(n + 2);
                            m.put_slice(&d);
                            H::M(m)
                        }
                        R_MFROM => H::M(BytesMut::from(&d[..])),
                        R_MZEROED => H::M(BytesMut::zeroed(n)),
                        R_MFROMITER => H::M(d.iter().cloned().collect::<BytesMut>()),
                        R_MSHARED_OFF | R_BFROZEN_OFF => {
                            let mut m = BytesMut::with_capacity(n + 4);
                            m.put_u8(0x5a);
                            m.put_slice(&d);
                            let head = m.split_to(1);
                            drop(head);
                            if kind == R_BFROZEN_OFF {
                                H::B(m.freeze())
                            } else {
                                H::M(m)
                            }
                        }
                        R_MBIG => {
                            let mut m = BytesMut::with_capacity(128);
                            m.put_slice(&d);
                            H::M(m)
                        }
                        R_MSHARED_GROWN => {
                            let mut m = BytesMut::with_capacity(n + 6);
                            m.put_u8(0x5a);
                            m.put_slice(&d[..n.saturating_sub(2)]);
                            let head = m.split_to(1);
                            drop(head);
                            m.put_slice(&d[n.saturating_sub(2)..]);
                            H::M(m)
                        }
                        R_MKILO => {
                            let mut m = BytesMut::with_capacity(1024);
                            m.put_slice(&d);
                            H::M(m)
                        }
                        R_BBIG => {
                            let mut v = Vec::with_capacity(128);
                            v.extend_from_slice(&d);
                            H::B(Bytes::from(v))
                        }
                        _ => return None,
                    })
                });
                let model = match kind {
                    R_BNEW | R_MNEW | R_BVEC_EMPTY_CAP => vec![],
                    R_BSTATIC => STATIC4[..n.min(4)].to_vec(),
                    R_MZEROED => vec![0; n],
                    R_BFROM_STRING | R_MFROM_STR => d.iter().map(|&b| b'A' + (b % 26)).collect(),
                    _ => d.clone(),
                };
                match r {
                    Ok(Some(h)) => {
                        if kind == R_BOWNER_PANIC {
                            self.vio("C03", "owner-panic-root", "from_owner returned although as_ref panicked".into());
                        }
                        if self.check {
                            // C07: from_static / from_owner are zero-copy views
                            if kind == R_BSTATIC && n > 0 && h.ptr() != STATIC4.as_ptr() as usize {
                                self.vio("C07", "from_static-address", format!("from_static view starts at {:#x}, static data at {:#x}", h.ptr(), STATIC4.as_ptr() as usize));
                            }
                            if (kind == R_BSTATIC || kind == R_BOWNER || kind == R_BOWNER_DROP_PANIC || kind == R_BOWNER_FLAKY || kind == R_BOWNER_VEC) && Self::byte_buffer_allocated_excluding_owner(kind, n) {
                                self.vio("C07", "root-copy", format!("{} allocated a byte buffer", root_name(kind)));
                            }
                        }
                        if kind == R_BOWNER || kind == R_BOWNER_DROP_PANIC || kind == R_BOWNER_FLAKY || kind == R_BOWNER_VEC {
                            self.owner_ranges.push((h.ptr(), h.len(), fam));
                        }
                        self.put(h, model, fam);
                    }
                    Ok(None) => {}
                    Err(()) => {
                        panicked = true;
                        if kind != R_BOWNER_PANIC {
                            self.vio("C01", "root-panic", format!("constructor {} panicked", root_name(kind)));
                        }
                    }
                }
            }
            K::BClone => {
                zero_copy_listed = true;
                let r = self.call(|w| w.b(s).clone());
                match r {
                    Ok(nb) => {
                        let (m, f) = (self.model(s).clone(), self.fam(s));
                        if self.check && !nb.is_empty() && nb.as_ptr() as usize != pre[s].ptr {
                            self.vio("C07", "clone-address", format!("clone starts at {:#x}, source at {:#x}", nb.as_ptr() as usize, pre[s].ptr));
                        }
                        self.put(H::B(nb), m, f);
                    }
                    Err(()) => panicked = true,
                }
            }
            K::BSlice | K::BSliceIncl => {
                zero_copy_listed = true;
                let (a, b) = (op.a, op.b);
                let l = pre_len(self, s);
                let end = if op.k == K::BSliceIncl { b.checked_add(1) } else { Some(b) };
                expect_panic = match end {
                    None => true,
                    Some(e) => a > e || e > l,
                };
                let incl = op.k == K::BSliceIncl;
                let r = self.call(|w| if incl { w.b(s).slice(a..=b) } else { w.b(s).slice(a..b) });
                match r {
                    Ok(nb) => {
                        if !expect_panic {
                            let e = end.unwrap();
                            let m = mslice(self.model(s), a, e);
                            let f = self.fam(s);
                            if self.check && !nb.is_empty() && nb.as_ptr() as usize != pre[s].ptr + a {
                                self.vio("C07", "slice-address", format!("slice({}..{}) starts at {:#x}, want source {:#x} + {}", a, e, nb.as_ptr() as usize, pre[s].ptr, a));
                            }
                            self.put(H::B(nb), m, f);
                        } else {
                            drop_in_subject(nb);
                        }
                    }
                    Err(()) => panicked = true,
                }
            }
            K::BSliceRef | K::BSliceRefForeign => {
                zero_copy_listed = true;
                let t = op.t as usize;
                let (a, b) = (op.a, op.b);
                let (sub_ptr, sub_len): (usize, usize) = if op.k == K::BSliceRefForeign {
                    (FOREIGN.as_ptr() as usize, FOREIGN.len())
                } else {
                    let tb = self.slots[t].as_ref().unwrap().h.bytes();
                    (tb[a..b].as_ptr() as usize, b - a)
                };
                let (sp, sl) = (self.slots[s].as_ref().unwrap().h.ptr(), self.slots[s].as_ref().unwrap().h.len());
                let inside = sub_ptr >= sp && sub_ptr + sub_len <= sp + sl;
                expect_panic = sub_len != 0 && !inside;
                let sub_model: Vec<u8> = if op.k == K::BSliceRefForeign { FOREIGN.to_vec() } else { mslice(&self.slots[t].as_ref().unwrap().model, a, b) };
                let r = self.call(|w| {
                    // SAFETY of the harness: the subset slice lives as long as slot t
                    let sub: &[u8] = unsafe { core::slice::from_raw_parts(sub_ptr as *const u8, sub_len) };
                    w.b(s).slice_ref(sub)
                });
                match r {
                    Ok(nb) => {
                        if !expect_panic {
                            let f = self.fam(s);
                            if self.check && !nb.is_empty() && nb.as_ptr() as usize != sub_ptr {
                                self.vio("C07", "slice_ref-address", format!("slice_ref result starts at {:#x}, the subset at {:#x}", nb.as_ptr() as usize, sub_ptr));
                            }
                            self.put(H::B(nb), sub_model, f);
                        } else {
                            drop_in_subject(nb);
                        }
                    }
                    Err(()) => panicked = true,
                }
            }
            K::BSplitOff | K::BSplitTo => {
                zero_copy_listed = true;
                let at = op.a;
                let l = pre_len(self, s);
                expect_panic = at > l;
                let off = op.k == K::BSplitOff;
                let r = self.call(|w| if off { w.b(s).split_off(at) } else { w.b(s).split_to(at) });
                match r {
                    Ok(nb) => {
                        if !expect_panic {
                            let f = self.fam(s);
                            let m = if off {
                                msplit_off(self.model(s), at)
                            } else {
                                let rest = msplit_off(self.model(s), at);
                                std::mem::replace(self.model(s), rest)
                            };
                            if self.check {
                                let (self_want, ret_want) = if off { (pre[s].ptr, pre[s].ptr + at) } else { (pre[s].ptr + at, pre[s].ptr) };
                                let sp = self.slots[s].as_ref().unwrap().h.ptr();
                                let name = if off { "split_off" } else { "split_to" };
                                if sp != self_want {
                                    self.vio("C07", &format!("{}-self-address", name), format!("Bytes::{}({}) left self at {:#x}, want {:#x}", name, at, sp, self_want));
                                }
                                if nb.as_ptr() as usize != ret_want {
                                    self.vio("C07", &format!("{}-ret-address", name), format!("Bytes::{}({}) returned a handle at {:#x}, want {:#x} (len {})", name, at, nb.as_ptr() as usize, ret_want, nb.len()));
                                }
                            }
                            self.put(H::B(nb), m, f);
                        } else {
                            drop_in_subject(nb);
                        }
                    }
                    Err(()) => panicked = true,
                }
            }
            K::BTruncate | K::BClear => {
                zero_copy_listed = true;
                let n = if op.k == K::BClear { 0 } else { op.a };
                let clear = op.k == K::BClear;
                let r = self.call(|w| if clear { w.b(s).clear() } else { w.b(s).truncate(n) });
                match r {
                    Ok(()) => {
                        self.model(s).truncate(n);
                        self.addr_same_if_nonempty(s, &pre, if clear { "clear" } else { "truncate" });
                    }
                    Err(()) => panicked = true,
                }
            }
            K::BAdvance => {
                zero_copy_listed = true;
                let n = op.a;
                expect_panic = n > pre_len(self, s);
                let r = self.call(|w| w.b(s).advance(n));
                match r {
                    Ok(()) => {
                        if !expect_panic {
                            mdrain(self.model(s), n);
                            self.addr_offset_if_nonempty(s, &pre, n, "advance");
                        }
                    }
                    Err(()) => panicked = true,
                }
            }
            K::BCopyToBytes => {
                let n = op.a;
                expect_panic = n > pre_len(self, s);
                let r = self.call(|w| w.b(s).copy_to_bytes(n));
                match r {
                    Ok(nb) => {
                        if !expect_panic {
                            let f = self.fam(s);
                            let rest = msplit_off(self.model(s), n);
                            let head = std::mem::replace(self.model(s), rest);
                            self.put(H::B(nb), head, f);
                        } else {
                            drop_in_subject(nb);
                        }
                    }
                    Err(()) => panicked = true,
                }
            }
            K::BTryIntoMut | K::BIntoMut => {
                let (b, m, f) = self.take_b(s);
                let try_ = op.k == K::BTryIntoMut;
                let r = self.call(move |_w| if try_ { b.try_into_mut().map_err(Some) } else { Ok(BytesMut::from(b)) });
                match r {
                    Ok(Ok(nm)) => {
                        self.last.ret = 1;
                        if self.check {
                            if try_ && !pre_unique {
                                self.vio("C08", "try_into_mut-ok-nonunique", "try_into_mut returned Ok although is_unique() was false just before".into());
                            }
                            if model_unique && !pre_unique && !nm.is_empty() && nm.as_ptr() as usize != pre[s].ptr {
                                // the buffer *is* uniquely held (no other handle exists), so the conversion must not copy
                                self.vio("C07", "into_mut-copied-sole-handle", format!("Bytes->BytesMut of the only handle on its buffer copied the bytes ({:#x} -> {:#x}): is_unique() was false although no other handle exists", pre[s].ptr, nm.as_ptr() as usize));
                            }
                            if pre_unique {
                                // zero-copy conversion of a uniquely held buffer
                                if !nm.is_empty() && nm.as_ptr() as usize != pre[s].ptr {
                                    self.vio("C07", "into_mut-address", format!("Bytes->BytesMut of a unique buffer moved the bytes: {:#x} -> {:#x}", pre[s].ptr, nm.as_ptr() as usize));
                                    self.vio("C08", "into_mut-address", format!("try_into_mut/into of a unique buffer did not return the same memory: {:#x} -> {:#x}", pre[s].ptr, nm.as_ptr() as usize));
                                }
                                if Self::byte_buffer_allocated() {
                                    self.vio("C07", "into_mut-alloc", "Bytes->BytesMut of a unique buffer allocated a byte buffer".into());
                                }
                                // "returns the same memory": the sole owner keeps its allocation (also when its view is empty)
                                if oracle::events().iter().any(|e| !e.is_alloc && e.align == 1) {
                                    self.vio("C08", "into_mut-freed-storage", format!("Bytes->BytesMut of a uniquely held buffer released the byte buffer (freed align-1 blocks of {:?} bytes) instead of handing it to the BytesMut", oracle::events().iter().filter(|e| !e.is_alloc && e.align == 1).map(|e| e.size).collect::<Vec<_>>()));
                                }
                            }
                        }
                        self.slots[s] = Some(Slot { h: H::M(nm), model: m, fam: f });
                    }
                    Ok(Err(Some(b))) => {
                        self.last.ret = 0;
                        if self.check && pre_unique {
                            self.vio("C08", "try_into_mut-err-unique", "try_into_mut returned Err although is_unique() was true just before".into());
                        }
                        self.slots[s] = Some(Slot { h: H::B(b), model: m, fam: f });
                    }
                    Ok(Err(None)) => unreachable!(),
                    Err(()) => {
                        panicked = true;
                    }
                }
            }
            K::BIntoVec => {
                let (b, m, f) = self.take_b(s);
                let readopt = op.a == 1;
                let r = self.call(move |_w| Vec::<u8>::from(b));
                match r {
                    Ok(v) => {
                        if self.check && v != m {
                            self.vio("C01", "into_vec-bytes", format!("Vec::from(Bytes) = {:02x?}, model {:02x?}", v, m));
                        }
                        if readopt {
                            let r2 = self.call(move |_w| Bytes::from(v));
                            match r2 {
                                Ok(nb) => self.slots[s] = Some(Slot { h: H::B(nb), model: m, fam: f }),
                                Err(()) => panicked = true,
                            }
                        } else {
                            drop_in_subject(v);
                        }
                    }
                    Err(()) => panicked = true,
                }
            }
            K::BDrop | K::MDrop => {
                let sl = self.slots[s].take().unwrap();
                let r = self.call(move |_w| drop(sl.h));
                if r.is_err() {
                    panicked = true;
                }
            }
            K::MSplitOff | K::MSplitTo | K::MSplit => {
                zero_copy_listed = true;
                let (l, c) = (pre_len(self, s), self.slots[s].as_ref().unwrap().h.cap());
                let at = if op.k == K::MSplit { l } else { op.a };
                expect_panic = match op.k {
                    K::MSplitOff => at > c,
                    K::MSplitTo => at > l,
                    _ => false,
                };
                let k = op.k;
                let r = self.call(|w| match k {
                    K::MSplitOff => w.m(s).split_off(at),
                    K::MSplitTo => w.m(s).split_to(at),
                    _ => w.m(s).split(),
                });
                match r {
                    Ok(nm) => {
                        if !expect_panic {
                            let f = self.fam(s);
                            let m = if k == K::MSplitOff {
                                if at <= l {
                                    msplit_off(self.model(s), at)
                                } else {
                                    vec![]
                                }
                            } else {
                                let rest = msplit_off(self.model(s), at);
                                std::mem::replace(self.model(s), rest)
                            };
                            if self.check {
                                let (self_want, ret_want) = if k == K::MSplitOff { (pre[s].ptr, pre[s].ptr + at) } else { (pre[s].ptr + at, pre[s].ptr) };
                                let sp = self.slots[s].as_ref().unwrap().h.ptr();
                                if sp != self_want {
                                    self.vio("C07", &format!("{:?}-self-address", k), format!("BytesMut {:?}({}) left self at {:#x}, want {:#x}", k, at, sp, self_want));
                                }
                                if nm.as_ptr() as usize != ret_want {
                                    self.vio("C07", &format!("{:?}-ret-address", k), format!("BytesMut {:?}({}) returned a handle at {:#x}, want {:#x}", k, at, nm.as_ptr() as usize, ret_want));
                                }
                                // capacities: the two parts tile the old region
                                let (sc, rc) = (self.slots[s].as_ref().unwrap().h.cap(), nm.capacity());
                                if sc + rc != pre[s].cap {
                                    self.vio("C04", "split-capacity", format!("{:?}({}) of a handle with capacity {} produced capacities {} + {}", k, at, pre[s].cap, sc, rc));
                                }
                            }
                            self.put(H::M(nm), m, f);
                        } else {
                            drop_in_subject(nm);
                        }
                    }
                    Err(()) => panicked = true,
                }
            }
            K::MTruncate | K::MClear => {
                zero_copy_listed = true;
                let clear = op.k == K::MClear;
                let n = if clear { 0 } else { op.a };
                let r = self.call(|w| if clear { w.m(s).clear() } else { w.m(s).truncate(n) });
                match r {
                    Ok(()) => {
                        self.model(s).truncate(n);
                        self.addr_same_if_nonempty(s, &pre, if clear { "clear" } else { "truncate" });
                    }
                    Err(()) => panicked = true,
                }
            }
            K::MAdvance => {
                zero_copy_listed = true;
                let n = op.a;
                expect_panic = n > pre_len(self, s);
                let r = self.call(|w| w.m(s).advance(n));
                match r {
                    Ok(()) => {
                        if !expect_panic {
                            mdrain(self.model(s), n);
                            self.addr_offset_if_nonempty(s, &pre, n, "advance");
                        }
                    }
                    Err(()) => panicked = true,
                }
            }
            K::MResize => {
                let n = op.a;
                let l = pre_len(self, s);
                expect_panic = n > ISIZE_MAX;
                let fill: u8 = if op.b == 1 { 0 } else { 0xEE };
                let r = self.call(|w| w.m(s).resize(n, fill));
                match r {
                    Ok(()) => {
                        if !expect_panic {
                            self.model(s).resize(n, fill);
                        }
                        let _ = l;
                    }
                    Err(()) => panicked = true,
                }
            }
            K::MReserve | K::MTryReclaim => {
                let n = op.a;
                let l = pre_len(self, s);
                let reserve = op.k == K::MReserve;
                // reserve must not return when len + n is not representable
                expect_panic = reserve && (l.checked_add(n).map_or(true, |t| t > ISIZE_MAX));
                let r = self.call(|w| if reserve { w.m(s).reserve(n); true } else { w.m(s).try_reclaim(n) });
                match r {
                    Ok(ok) => {
                        self.last.ret = ok as i64;
                        if self.check && !expect_panic {
                            let h = &self.slots[s].as_ref().unwrap().h;
                            let (np, nl, nc) = (h.ptr(), h.len(), h.cap());
                            let name = if reserve { "reserve" } else { "try_reclaim" };
                            if ok {
                                if nc < nl || nc - nl < n {
                                    self.vio("C04", &format!("{}-promise", name), format!("{}({}) returned{} but capacity()-len() = {}-{}", name, n, if reserve { "" } else { " true" }, nc, nl));
                                }
                                if !reserve && Self::any_alloc_event() {
                                    self.vio("C04", "try_reclaim-allocated", format!("try_reclaim({}) returned true but allocated or freed memory ({} events)", n, oracle::events().len()));
                                }
                            } else if np != pre[s].ptr || nl != pre[s].len || nc != pre[s].cap {
                                self.vio("C04", "try_reclaim-false-changed", format!("try_reclaim({}) returned false but (ptr,len,cap) went from ({:#x},{},{}) to ({:#x},{},{})", n, pre[s].ptr, pre[s].len, pre[s].cap, np, nl, nc));
                            }
                            if nl != pre[s].len {
                                self.vio("C04", &format!("{}-len", name), format!("{}({}) changed len from {} to {}", name, n, pre[s].len, nl));
                            }
                        }
                    }
                    Err(()) => panicked = true,
                }
                if !reserve && panicked {
                    // try_reclaim never panics by contract: handled by the generic expect_panic=false path
                }
            }
            K::MExtend => {
                let d = self.fresh(op.a);
                let r = self.call(|w| w.m(s).extend_from_slice(&d));
                match r {
                    Ok(()) => self.model(s).extend_from_slice(&d),
                    Err(()) => panicked = true,
                }
            }
            K::MPutU8 => {
                let d = self.fresh(1)[0];
                let r = self.call(|w| w.m(s).put_u8(d));
                match r {
                    Ok(()) => self.model(s).push(d),
                    Err(()) => panicked = true,
                }
            }
            K::MWrite => {
                // overwrite every visible byte through DerefMut
                let l = pre_len(self, s);
                let d = self.fresh(l);
                let r = self.call(|w| w.m(s)[..].copy_from_slice(&d));
                match r {
                    Ok(()) => *self.model(s) = d,
                    Err(()) => panicked = true,
                }
            }
            K::MFillSpare => {
                // write a pattern into all of the spare capacity (never becomes visible)
                let r = self.call(|w| {
                    for x in w.m(s).spare_capacity_mut().iter_mut() {
                        x.write(0xF7);
                    }
                });
                if r.is_err() {
                    panicked = true;
                }
            }
            K::MUnsplit => {
                let t = op.t as usize;
                let (other, om, of) = self.take_m(t);
                let adjacent = {
                    let h = &self.slots[s].as_ref().unwrap().h;
                    let same_block = oracle::find_live(h.ptr()).is_some() && oracle::find_live(h.ptr()) == oracle::find_live(other.as_ptr() as usize);
                    same_block && other.capacity() > 0 && h.len() > 0 && h.ptr() + h.len() == other.as_ptr() as usize
                };
                let self_empty = pre_len(self, s) == 0;
                // an emptied half that still sits in the same allocation as the other half
                let empty_sibling = {
                    let h = &self.slots[s].as_ref().unwrap().h;
                    self_empty && h.cap() > 0 && other.len() > 0 && oracle::find_live(h.ptr()).is_some() && oracle::find_live(h.ptr()) == oracle::find_live(other.as_ptr() as usize)
                };
                let other_ptr = other.as_ptr() as usize;
                let other_len = other.len();
                let r = self.call(move |w| w.m(s).unsplit(other));
                match r {
                    Ok(()) => {
                        self.model(s).extend_from_slice(&om);
                        self.slots[s].as_mut().unwrap().fam |= of;
                        if self.check {
                            let h = &self.slots[s].as_ref().unwrap().h;
                            if adjacent {
                                zero_copy_listed = true;
                                if h.ptr() != pre[s].ptr {
                                    self.vio("C07", "unsplit-address", format!("unsplit of adjacent halves moved the bytes: {:#x} -> {:#x}", pre[s].ptr, h.ptr()));
                                }
                            } else if empty_sibling {
                                // halves of one allocation, the receiving one emptied: the result holds exactly other's
                                // bytes, which must stay where they are (no copy into the receiver's old capacity)
                                zero_copy_listed = true;
                                if h.ptr() != other_ptr {
                                    self.vio("C07", "unsplit-empty-half-address", format!("unsplit into an emptied half of the same allocation moved the bytes: they were at {:#x}, the result starts at {:#x}", other_ptr, h.ptr()));
                                }
                            }
                            let _ = other_len;
                        }
                    }
                    Err(()) => panicked = true,
                }
            }
            K::MFreeze => {
                zero_copy_listed = true;
                let (m, mm, f) = self.take_m(s);
                let r = self.call(move |_w| m.freeze());
                match r {
                    Ok(nb) => {
                        if self.check && !nb.is_empty() && nb.as_ptr() as usize != pre[s].ptr {
                            self.vio("C07", "freeze-address", format!("freeze moved the bytes: {:#x} -> {:#x}", pre[s].ptr, nb.as_ptr() as usize));
                        }
                        self.slots[s] = Some(Slot { h: H::B(nb), model: mm, fam: f });
                    }
                    Err(()) => panicked = true,
                }
            }
            K::MIntoVec => {
                let (m, mm, f) = self.take_m(s);
                let readopt = op.a == 1;
                let r = self.call(move |_w| Vec::<u8>::from(m));
                match r {
                    Ok(v) => {
                        if self.check && v != mm {
                            self.vio("C01", "m-into_vec-bytes", format!("Vec::from(BytesMut) = {:02x?}, model {:02x?}", v, mm));
                        }
                        if readopt {
                            let r2 = self.call(move |_w| Bytes::from(v));
                            match r2 {
                                Ok(nb) => self.slots[s] = Some(Slot { h: H::B(nb), model: mm, fam: f }),
                                Err(()) => panicked = true,
                            }
                        } else {
                            drop_in_subject(v);
                        }
                    }
                    Err(()) => panicked = true,
                }
            }
            K::MClone => {
                let r = self.call(|w| w.m(s).clone());
                match r {
                    Ok(nm) => {
                        let m = self.model(s).clone();
                        // a BytesMut clone is always a deep copy: new family
                        let fam = 1u32 << self.next_fam;
                        self.next_fam += 1;
                        self.put(H::M(nm), m, fam);
                    }
                    Err(()) => panicked = true,
                }
            }
            K::MCopyToBytes => {
                let n = op.a;
                expect_panic = n > pre_len(self, s);
                let r = self.call(|w| w.m(s).copy_to_bytes(n));
                match r {
                    Ok(nb) => {
                        if !expect_panic {
                            let f = self.fam(s);
                            let rest = msplit_off(self.model(s), n);
                            let head = std::mem::replace(self.model(s), rest);
                            self.put(H::B(nb), head, f);
                        } else {
                            drop_in_subject(nb);
                        }
                    }
                    Err(()) => panicked = true,
                }
            }
            K::MPutBytes => {
                // BufMut::put_bytes: reserve + write_bytes + advance_mut
                let n = op.a;
                expect_panic = pre_len(self, s).checked_add(n).map_or(true, |t| t > ISIZE_MAX);
                let r = self.call(|w| w.m(s).put_bytes(0xB7, n));
                match r {
                    Ok(()) => {
                        if !expect_panic {
                            let l = self.model(s).len();
                            self.model(s).resize(l + n, 0xB7);
                        }
                    }
                    Err(()) => panicked = true,
                }
            }
            K::MPutBuf => {
                // BufMut::put(impl Buf) with a two-chunk source (the per-chunk loop of `put`), b = position of the chunk boundary
                let d = self.fresh(op.a);
                let cut = op.b.min(op.a);
                let r = self.call(|w| {
                    let src = Buf::chain(&d[..cut], &d[cut..]);
                    w.m(s).put(src)
                });
                match r {
                    Ok(()) => self.model(s).extend_from_slice(&d),
                    Err(()) => panicked = true,
                }
            }
            K::MChunkMut => {
                // the BufMut protocol used in contract: chunk_mut() (grows a full buffer), write a bytes, advance_mut(a)
                let d = self.fresh(op.a.max(1));
                let n = op.a;
                let requery = op.b == 1;
                let r = self.call(|w| {
                    let m = w.m(s);
                    let c = m.chunk_mut();
                    let cl = c.len();
                    let k = n.min(cl);
                    for i in 0..k {
                        c.write_byte(i, d[i]);
                    }
                    if requery {
                        // asking again before committing (e.g. for the length) must not disturb what was written
                        let again = m.chunk_mut().len();
                        assert!(again >= k, "second chunk_mut() is shorter than what was written");
                    }
                    unsafe { m.advance_mut(k) };
                    (cl, k)
                });
                match r {
                    Ok((cl, k)) => {
                        if self.check && cl == 0 {
                            self.vio("C04", "chunk_mut-empty", "BytesMut::chunk_mut() returned an empty slice although remaining_mut() > 0".into());
                        }
                        self.model(s).extend_from_slice(&d[..k]);
                    }
                    Err(()) => panicked = true,
                }
            }
            K::MWriteStr => {
                // fmt::Write::write_str (ASCII payload so that it is a str)
                // b = 0: write_str of a ASCII bytes; b = 1/2/3: write_char of one 2/3/4-byte character, a times; b = 4: write!("{}{}")
                let n = op.a;
                let mode = op.b;
                let txt: String = match mode {
                    0 => (0..n).map(|i| (b'a' + (i % 26) as u8) as char).collect(),
                    1 => (0..n).map(|_| '\u{e9}').collect(),
                    2 => (0..n).map(|_| '\u{20ac}').collect(),
                    3 => (0..n).map(|_| '\u{1d11e}').collect(),
                    _ => "x\u{e9}\u{20ac}".to_string(),
                };
                let r = self.call(|w| match mode {
                    0 => core::fmt::Write::write_str(w.m(s), &txt).is_ok(),
                    1 | 2 | 3 => txt.chars().all(|c| core::fmt::Write::write_char(w.m(s), c).is_ok()),
                    _ => core::fmt::Write::write_fmt(w.m(s), format_args!("{}{}{}", 'x', '\u{e9}', '\u{20ac}')).is_ok(),
                });
                match r {
                    Ok(ok) => {
                        self.last.ret = ok as i64;
                        if ok {
                            self.model(s).extend_from_slice(txt.as_bytes());
                        } else if self.check {
                            self.vio("C01", "write_str-err", format!("write_str of {} bytes failed on a growable BytesMut", n));
                        }
                    }
                    Err(()) => panicked = true,
                }
            }
            K::MExtendIter => {
                // Extend<u8> (b = 0) / Extend<&u8> (b = 1) with an exact size hint
                // (b = 2: Extend<Bytes> with one static chunk; b = 3: Extend<Bytes> with one uniquely held Vec-backed chunk)
                static STATIC_CHUNK: [u8; 8] = [0x5B; 8];
                let mode = op.b;
                let d = if mode == 2 { STATIC_CHUNK[..op.a.min(8)].to_vec() } else { self.fresh(op.a) };
                let by_ref = op.b == 1;
                let r = self.call(|w| match mode {
                    2 => w.m(s).extend([Bytes::from_static(&STATIC_CHUNK[..d.len()])]),
                    3 => {
                        let mut v = Vec::with_capacity(d.len() + 1);
                        v.extend_from_slice(&d);
                        w.m(s).extend([Bytes::from(v)])
                    }
                    _ => {
                        if by_ref {
                            w.m(s).extend(d.iter())
                        } else {
                            w.m(s).extend(d.iter().cloned())
                        }
                    }
                });
                match r {
                    Ok(()) => self.model(s).extend_from_slice(&d),
                    Err(()) => panicked = true,
                }
            }
            K::BIntoIter | K::MIntoIter => {
                // consuming iteration: yields exactly the bytes, then releases the handle
                let sl = self.slots[s].take().unwrap();
                let m = sl.model.clone();
                let r = self.call(move |_w| match sl.h {
                    H::B(b) => b.into_iter().collect::<Vec<u8>>(),
                    H::M(mm) => mm.into_iter().collect::<Vec<u8>>(),
                });
                match r {
                    Ok(v) => {
                        if self.check && v != m {
                            self.vio("C01", "into_iter-bytes", format!("into_iter() yielded {:02x?}, model {:02x?}", v, m));
                        }
                        drop_in_subject(v);
                    }
                    Err(()) => panicked = true,
                }
            }
            K::BSliceBounds => {
                // slice() with explicit Bound pairs (exclusive starts exist only this way).
                // t = mode: 0 (Excluded(a), Excluded(b)); 1 (Excluded(a), Included(b)); 2 (Excluded(a), Unbounded); 3 (Unbounded, Included(b)); 4 (Included(a), Unbounded)
                zero_copy_listed = true;
                use core::ops::Bound::*;
                let (a, b, mode) = (op.a, op.b, op.t);
                let l = pre_len(self, s);
                let begin = match mode {
                    0 | 1 | 2 => a.checked_add(1),
                    3 => Some(0),
                    _ => Some(a),
                };
                let end = match mode {
                    0 => Some(b),
                    1 | 3 => b.checked_add(1),
                    _ => Some(l),
                };
                expect_panic = match (begin, end) {
                    (Some(x), Some(y)) => x > y || y > l,
                    _ => true,
                };
                let r = self.call(|w| match mode {
                    0 => w.b(s).slice((Excluded(a), Excluded(b))),
                    1 => w.b(s).slice((Excluded(a), Included(b))),
                    2 => w.b(s).slice((Excluded(a), Unbounded)),
                    3 => w.b(s).slice((Unbounded, Included(b))),
                    _ => w.b(s).slice((Included(a), Unbounded)),
                });
                match r {
                    Ok(nb) => {
                        if !expect_panic {
                            let (x, y) = (begin.unwrap(), end.unwrap());
                            let m = mslice(self.model(s), x, y);
                            let f = self.fam(s);
                            if self.check && !nb.is_empty() && nb.as_ptr() as usize != pre[s].ptr + x {
                                self.vio("C07", "slice-bounds-address", format!("slice(bounds mode {} a {} b {}) starts at {:#x}, want source {:#x} + {}", mode, a, b, nb.as_ptr() as usize, pre[s].ptr, x));
                            }
                            self.put(H::B(nb), m, f);
                        } else {
                            drop_in_subject(nb);
                        }
                    }
                    Err(()) => panicked = true,
                }
            }
            K::MExtendLie | K::MExtendPanic => {
                // Extend<u8> with a user iterator: a = items really yielded, b = claimed lower bound of size_hint
                // (MExtendLie: the hint lies, too small or too large; MExtendPanic: next() panics after a items).
                // Vec semantics: exactly the yielded items are appended (a panic keeps what was yielded so far).
                let d = self.fresh(op.a);
                let (n, hint, boom) = (op.a, op.b, op.k == K::MExtendPanic);
                struct It<'a> {
                    d: &'a [u8],
                    i: usize,
                    hint: usize,
                    boom: bool,
                    exact: bool,
                }
                impl<'a> Iterator for It<'a> {
                    type Item = u8;
                    fn next(&mut self) -> Option<u8> {
                        if self.i < self.d.len() {
                            self.i += 1;
                            Some(self.d[self.i - 1])
                        } else if self.boom {
                            panic!("iterator panics")
                        } else {
                            None
                        }
                    }
                    fn size_hint(&self) -> (usize, Option<usize>) {
                        // t = 1: the hint looks exact (lower == upper) and is still a lie
                        (self.hint, if self.exact { Some(self.hint) } else { None })
                    }
                }
                let exact = op.t == 1;
                let before = self.model(s).clone();
                // a lower bound that cannot be represented: reserve(lower) must panic before anything is appended
                let hint_impossible = !boom && before.len().checked_add(hint).map_or(true, |t| t > ISIZE_MAX);
                let r = self.call(|w| w.m(s).extend(It { d: &d, i: 0, hint, boom, exact }));
                let _ = n;
                match r {
                    Ok(()) => {
                        if boom && self.check {
                            self.vio("C01", "extend-swallowed-panic", "extend() returned although the iterator panicked".into());
                        }
                        self.model(s).extend_from_slice(&d);
                    }
                    Err(()) => {
                        panicked = true;
                        expect_panic = boom || hint_impossible;
                        if boom {
                            // the handle must still be a consistent value: old contents followed by a prefix of what was yielded
                            let mut want = before.clone();
                            want.extend_from_slice(&d);
                            let (readable, cur) = {
                                let h = &self.slots[s].as_ref().unwrap().h;
                                let (p, l) = (h.ptr(), h.len());
                                let readable = l == 0 || oracle::find_live(p).map_or(false, |bi| {
                                    let b = oracle::blocks()[bi];
                                    p + l <= b.user + b.size
                                });
                                (readable, if readable { h.bytes().to_vec() } else { vec![] })
                            };
                            if readable && cur.len() >= before.len() && cur.len() <= want.len() && cur[..] == want[..cur.len()] {
                                *self.model(s) = cur;
                            } else {
                                // left as is: the state oracles report the mismatch / the dangling view
                                if self.check {
                                    self.vio("C02", "extend-panic-state", format!("after a panic inside extend() the handle is not a consistent value (readable: {}, len {})", readable, cur.len()));
                                }
                                if readable {
                                    *self.model(s) = cur;
                                }
                            }
                        }
                    }
                }
            }
            K::MUninitApi => {
                // safe UninitSlice API on the chunk handed out by chunk_mut(): a = 0 write_byte(len) must panic,
                // a = 1 copy_from_slice of len+1 bytes must panic, a = 2 indexing [..len+1] must panic; nothing may be written
                let mode = op.a;
                expect_panic = true;
                // the byte right behind the chunk (inside the block: a sibling's byte or spare; at its end: the allocator's red zone)
                let behind: usize = {
                    let h = &self.slots[s].as_ref().unwrap().h;
                    h.ptr() + h.cap()
                };
                let known = oracle::find_live(behind.wrapping_sub(1)).is_some();
                let before_byte = if known { unsafe { core::ptr::read_volatile(behind as *const u8) } } else { 0 };
                let r = self.call(|w| {
                    let m = w.m(s);
                    let c = m.chunk_mut();
                    let cl = c.len();
                    match mode {
                        0 => c.write_byte(cl, 0xF9),
                        1 => {
                            let src = vec![0xF9u8; cl + 1];
                            c.copy_from_slice(&src)
                        }
                        _ => {
                            let sub = &mut c[..cl + 1];
                            sub.write_byte(cl, 0xF9)
                        }
                    }
                });
                if r.is_err() {
                    panicked = true;
                }
                if self.check && known {
                    let after_byte = unsafe { core::ptr::read_volatile(behind as *const u8) };
                    if after_byte != before_byte {
                        self.vio("C02", "uninit-slice-oob-write", format!("an out-of-range UninitSlice call (mode {}) on the chunk of a BytesMut wrote a byte behind the end of the chunk ({:02x} -> {:02x})", mode, before_byte, after_byte));
                    }
                }
            }
            K::MPutUnder => {
                // BufMut::put with a source whose remaining() under-reports (claims at most `a`) while chunk() hands out
                // all 16 bytes it has: what is appended is unspecified (a prefix of the source's bytes), memory safety is not
                struct Under {
                    data: [u8; 16],
                    pos: usize,
                    claim: usize,
                    fuel: core::cell::Cell<u32>,
                }
                impl Buf for Under {
                    fn remaining(&self) -> usize {
                        let f = self.fuel.get();
                        self.fuel.set(f + 1);
                        if f > 200 {
                            panic!("under-reporting source: out of fuel");
                        }
                        (16 - self.pos).min(self.claim)
                    }
                    fn chunk(&self) -> &[u8] {
                        &self.data[self.pos..]
                    }
                    fn advance(&mut self, cnt: usize) {
                        self.pos = (self.pos + cnt).min(16);
                    }
                }
                let claim = op.a;
                let before = self.model(s).clone();
                let r = self.call(|w| {
                    let mut src = Under { data: [0x6b; 16], pos: 0, claim, fuel: core::cell::Cell::new(0) };
                    w.m(s).put(&mut src)
                });
                if r.is_err() {
                    panicked = true;
                    expect_panic = true; // a panic is an allowed outcome with a misbehaving source
                }
                let (readable, cur) = {
                    let h = &self.slots[s].as_ref().unwrap().h;
                    let (p, l) = (h.ptr(), h.len());
                    let readable = l == 0 || oracle::find_live(p).map_or(false, |bi| {
                        let b = oracle::blocks()[bi];
                        p + l <= b.user + b.size
                    });
                    (readable, if readable { h.bytes().to_vec() } else { vec![] })
                };
                let consistent = readable && cur.len() >= before.len() && cur.len() <= before.len() + 16 && cur[..before.len()] == before[..] && cur[before.len()..].iter().all(|&b| b == 0x6b);
                if consistent {
                    *self.model(s) = cur;
                } else {
                    if self.check {
                        self.vio("C02", "put-under-state", format!("after put() from a source that under-reports remaining() the handle is not a consistent value (readable: {}, len {}, had {})", readable, cur.len(), before.len()));
                    }
                    if readable {
                        *self.model(s) = cur;
                    }
                }
            }
        }
        // a panic that comes out of the user's owner destructor is the user's, whichever call released the last view
        let drops_after: u32 = owners().iter().map(|o| o.drops).sum();
        if panicked && drops_after != drops_before && op.k != K::Root {
            expect_panic = true;
            owner_drop_panic = true;
        }
        self.last.panicked = panicked;
        if panicked {
            self.panics_seen += 1;
        }
        if !self.check {
            return;
        }
        // ---- generic outcome oracles
        if op.k != K::Root {
            if expect_panic && !panicked {
                self.vio("C13", &format!("{:?}-nopanic", op.k), format!("out-of-contract call {:?} returned instead of panicking", op));
                if matches!(op.k, K::MReserve) {
                    self.vio("C04", "reserve-unrepresentable-returned", format!("reserve({}) on a handle of len {} returned although len + n is not representable", op.a, pre[s].len));
                }
            }
            if !expect_panic && panicked {
                let prop = match op.k {
                    K::MReserve | K::MTryReclaim => "C04",
                    _ => "C01",
                };
                self.vio(prop, &format!("{:?}-panic", op.k), format!("in-contract call {:?} panicked", op));
                if op.k == K::MTryReclaim {
                    self.vio("C13", "MTryReclaim-panic", format!("try_reclaim({}) panicked; it must answer true or false", op.a));
                }
            }
            if panicked && op.k != K::MExtendPanic && op.k != K::MPutUnder && !owner_drop_panic {
                // C13: every handle, including the target, is intact (only checkable for calls that
                // borrow the handle; a consuming call that panics has lost it, which is reported above)
                let post = self.snaps();
                for i in 0..MAXH {
                    if pre[i].present && self.slots[i].is_some() && post[i] != pre[i] {
                        self.vio(
                            "C13",
                            &format!("{:?}-state-after-panic", op.k),
                            format!("after the panic of {:?} slot {} changed from (ptr {:#x}, len {}, cap {}, {:02x?}) to (ptr {:#x}, len {}, cap {}, {:02x?})", op, i, pre[i].ptr, pre[i].len, pre[i].cap, pre[i].bytes, post[i].ptr, post[i].len, post[i].cap, post[i].bytes),
                        );
                    }
                }
            }
            // C07: listed sharing operations never allocate a byte buffer (only when the call returned)
            if zero_copy_listed && !panicked && Self::byte_buffer_allocated() {
                self.vio("C07", &format!("{:?}-alloc", op.k), format!("sharing operation {:?} allocated a byte buffer (align-1 allocation of {:?} bytes)", op, oracle::events().iter().filter(|e| e.is_alloc && e.align == 1).map(|e| e.size).collect::<Vec<_>>()));
            }
        }
    }

    fn byte_buffer_allocated_excluding_owner(kind: usize, n: usize) -> bool {
        // from_owner: the harness builds the owner's Vec inside the window (1 align-1 block of n bytes via d.clone())
        let allocs: Vec<usize> = oracle::events().iter().filter(|e| e.is_alloc && e.align == 1).map(|e| e.size).collect();
        if kind == R_BOWNER || kind == R_BOWNER_VEC || kind == R_BOWNER_DROP_PANIC {
            allocs.len() > if n > 0 { 1 } else { 0 }
        } else if kind == R_BOWNER_FLAKY {
            allocs.len() > if n > 0 { 2 } else { 1 }
        } else {
            !allocs.is_empty()
        }
    }

    fn addr_same_if_nonempty(&mut self, s: usize, pre: &[Snap], name: &str) {
        if !self.check {
            return;
        }
        let h = &self.slots[s].as_ref().unwrap().h;
        if h.len() > 0 && h.ptr() != pre[s].ptr {
            let (a, b) = (pre[s].ptr, h.ptr());
            self.vio("C07", &format!("{}-address", name), format!("{} moved the bytes: {:#x} -> {:#x}", name, a, b));
        }
    }
    fn addr_offset_if_nonempty(&mut self, s: usize, pre: &[Snap], n: usize, name: &str) {
        if !self.check {
            return;
        }
        let h = &self.slots[s].as_ref().unwrap().h;
        if h.len() > 0 && h.ptr() != pre[s].ptr + n {
            let (a, b) = (pre[s].ptr, h.ptr());
            self.vio("C07", &format!("{}-address", name), format!("{}({}) moved the view from {:#x} to {:#x}", name, n, a, b));
        }
    }

    // -------------------------------------------------------------- state oracles

    /// Oracles on the state reached: C01 contents, C02 containment / canaries / allocator
    /// complaints, C03 owner rules, C04 exclusivity, C08 uniqueness.
    pub fn check_state(&mut self) {
        let mut out: Vec<Vio> = vec![];
        let mut v = |p: &'static str, c: &str, m: String| {
            if out.len() < 8 {
                out.push(Vio { property: p, case: c.to_string(), msg: m })
            }
        };
        if let Some(m) = oracle::take_violation() {
            let case = if m.starts_with("double free") {
                "double-free"
            } else if m.starts_with("free with wrong layout") {
                "wrong-layout-free"
            } else if m.starts_with("free of interior") {
                "interior-free"
            } else if m.starts_with("heap overflow") {
                "heap-overflow"
            } else {
                "bad-free"
            };
            v("C02", case, m.clone());
            if case == "double-free" {
                v("C03", "double-free", m);
            }
        }
        if let Some(m) = oracle::check_canaries() {
            let case = if m.starts_with("write after free") { "write-after-free" } else if m.starts_with("heap underflow") { "heap-underflow" } else { "heap-overflow" };
            v("C02", case, m);
        }
        // regions: (slot, start, end_visible, end_capacity, is_b)
        let mut regs: Vec<(usize, usize, usize, usize, bool)> = vec![];
        for i in 0..MAXH {
            if let Some(sl) = &self.slots[i] {
                let (p, l, c) = (sl.h.ptr(), sl.h.len(), sl.h.cap());
                // C01 (skip the read when the view is not inside known memory: containment is reported below)
                let readable = l == 0
                    || oracle::find_live(p).map_or(false, |bi| {
                        let b = oracle::blocks()[bi];
                        p + l <= b.user + b.size
                    })
                    || oracle::find_region(p).map_or(false, |r| p + l <= r.base + r.len);
                if !readable {
                    v("C01", "view-outside-memory", format!("slot {}: the handle's view [{:#x}, +{}) is not inside any live allocation or static region; model len {}", i, p, l, sl.model.len()));
                } else if sl.h.bytes() != &sl.model[..] {
                    v("C01", "contents", format!("slot {} ({}) reads {:02x?} (len {}), model {:02x?} (len {})", i, if sl.h.is_b() { "Bytes" } else { "BytesMut" }, sl.h.bytes(), l, sl.model, sl.model.len()));
                }
                let (rem, chunk_ok) = match &sl.h {
                    H::B(b) => (b.remaining(), !readable || b.chunk() == &sl.model[..]),
                    H::M(m) => (m.remaining(), !readable || m.chunk() == &sl.model[..]),
                };
                if rem != sl.model.len() || !chunk_ok {
                    v("C01", "buf-view", format!("slot {}: Buf::remaining()/chunk() disagree with the model (remaining {}, model len {})", i, rem, sl.model.len()));
                }
                if c < l {
                    v("C04", "cap-lt-len", format!("slot {}: capacity {} < len {}", i, c, l));
                }
                // C02 containment (empty handles may dangle)
                let extent = if sl.h.is_b() { l } else { c };
                if extent > 0 {
                    let inside_block = oracle::find_live(p).map_or(false, |bi| {
                        let b = oracle::blocks()[bi];
                        p >= b.user && p + extent <= b.user + b.size
                    });
                    let inside_region = oracle::find_region(p).map_or(false, |r| p >= r.base && p + extent <= r.base + r.len);
                    if !inside_block && !inside_region {
                        let what = match oracle::find_any(p) {
                            Some(bi) => {
                                let b = oracle::blocks()[bi];
                                format!("{} block of {} bytes at offset {}", if b.live { "a live" } else { "a FREED" }, b.size, p - b.user)
                            }
                            None => "no allocation the crate owns".into(),
                        };
                        if what.starts_with("a FREED") {
                            v("C03", "freed-while-handle-alive", format!("slot {}: the storage behind this live non-empty handle was already released ({})", i, what));
                        }
                        let prop = if sl.h.is_b() { "C02" } else { "C04" };
                        v(prop, "containment", format!("slot {} ({}): region [{:#x}, +{}) is not inside one live allocation (it points into {})", i, if sl.h.is_b() { "Bytes, visible bytes" } else { "BytesMut, capacity" }, p, extent, what));
                        if prop == "C04" {
                            v("C02", "containment", format!("slot {}: BytesMut capacity region [{:#x}, +{}) reaches outside its allocation ({})", i, p, extent, what));
                        }
                    }
                }
                regs.push((i, p, p + l, p + c, sl.h.is_b()));
            }
        }
        // C04 exclusivity: BytesMut capacity regions are disjoint from each other and from visible Bytes
        for x in 0..regs.len() {
            for y in 0..regs.len() {
                if x == y {
                    continue;
                }
                let (i, ps, _pe, pc, ib) = regs[x];
                let (j, qs, qe, qc, jb) = regs[y];
                if ib {
                    continue;
                }
                let (os, oe) = if jb { (qs, qe) } else { (qs, qc) };
                if !jb && j < i {
                    continue; // unordered pair of BytesMut: report once
                }
                if pc > ps && oe > os && ps < oe && os < pc {
                    v("C04", "overlap", format!("BytesMut in slot {} owns [{:#x},{:#x}) which overlaps the {} of slot {} [{:#x},{:#x})", i, ps, pc, if jb { "visible bytes of the Bytes" } else { "capacity region of the BytesMut" }, j, os, oe));
                }
            }
        }
        // C08 uniqueness
        for i in 0..MAXH {
            if let Some(sl) = &self.slots[i] {
                if let H::B(b) = &sl.h {
                    let uq = b.is_unique();
                    let p = b.as_ptr() as usize;
                    let my_block = if b.is_empty() { None } else { oracle::find_live(p) };
                    let in_region = !b.is_empty() && oracle::find_region(p).is_some();
                    let owner_backed = my_block.map_or(false, |bi| self.is_owner_block(bi)) || (!b.is_empty() && self.in_owner_range(p, b.len(), sl.fam));
                    if in_region && uq {
                        v("C08", "static-unique", format!("slot {}: is_unique() is true for static data", i));
                    }
                    if owner_backed && uq {
                        v("C08", "owner-unique", format!("slot {}: is_unique() is true for owner-backed data", i));
                    }
                    if let Some(bi) = my_block {
                        let sharer = (0..MAXH).find(|&j| {
                            j != i
                                && self.slots[j].as_ref().map_or(false, |o| {
                                    let ext = if o.h.is_b() { o.h.len() } else { o.h.cap().max(o.h.len()) };
                                    o.h.len() > 0 && ext > 0 && oracle::find_live(o.h.ptr()) == Some(bi)
                                })
                        });
                        if let Some(j) = sharer {
                            if uq {
                                v("C08", "shared-unique", format!("slot {}: is_unique() is true although the non-empty handle in slot {} shares its allocation", i, j));
                            }
                        }
                        let related = (0..MAXH).any(|j| j != i && self.slots[j].as_ref().map_or(false, |o| o.fam & sl.fam != 0));
                        if !related && !owner_backed && !uq {
                            v("C08", "sole-not-unique", format!("slot {}: is_unique() is false although no other live handle was ever derived from or merged with this buffer", i));
                        }
                    }
                }
            }
        }
        // C03 owner rules
        for (oi, o) in owners().iter().enumerate() {
            if !o.created {
                continue;
            }
            if o.as_ref_calls > 1 {
                v("C03", "owner-as_ref-twice", format!("owner {}: as_ref called {} times", oi, o.as_ref_calls));
            }
            if o.drops > 1 {
                v("C03", "owner-dropped-twice", format!("owner {}: dropped {} times", oi, o.drops));
            }
            let family_alive = self.slots.iter().flatten().any(|s| s.fam & o.fam != 0);
            if !family_alive && o.drops != 1 {
                v("C03", "owner-not-dropped", format!("owner {}: every handle derived from it is gone but it was dropped {} times", oi, o.drops));
            }
        }
        self.vios.extend(out);
    }

    /// the view lies inside the memory an owner root of the same family handed to from_owner (history knowledge, no hook)
    fn in_owner_range(&self, p: usize, l: usize, fam: u32) -> bool {
        self.owner_ranges.iter().any(|&(p0, l0, f)| f & fam != 0 && p >= p0 && p + l <= p0 + l0)
    }

    fn is_owner_block(&self, bi: usize) -> bool {
        let blk = oracle::blocks()[bi];
        if self.owner_ranges.iter().any(|&(p0, l0, _)| l0 > 0 && p0 >= blk.user && p0 < blk.user + blk.size) {
            return true;
        }
        // the owner's Vec is the align-1 block created by the R_BOWNER root; we remember it by family:
        // a block is owner-backed iff some handle of an owner family points into it and the hook says B_OWNED
        for sl in self.slots.iter().flatten() {
            if let H::B(b) = &sl.h {
                if !b.is_empty() && oracle::find_live(b.as_ptr() as usize) == Some(bi) && b.verif_repr().kind == bytes::verif::B_OWNED {
                    return true;
                }
            }
        }
        false
    }

    // -------------------------------------------------------------- epilogue

    /// Drop every surviving handle in the given order (slot indices).
    pub fn drop_all(&mut self, order: &[usize]) {
        for &i in order {
            if let Some(sl) = self.slots[i].take() {
                let _ = self.call(move |_w| drop(sl.h));
            }
        }
    }
}

fn mslice(m: &[u8], a: usize, b: usize) -> Vec<u8> {
    let b = b.min(m.len());
    m[a.min(b)..b].to_vec()
}
fn msplit_off(m: &mut Vec<u8>, at: usize) -> Vec<u8> {
    let at = at.min(m.len());
    m.split_off(at)
}
fn mdrain(m: &mut Vec<u8>, n: usize) {
    let n = n.min(m.len());
    m.drain(..n);
}

fn pre_len(w: &World, s: usize) -> usize {
    w.slots[s].as_ref().unwrap().h.len()
}

fn drop_in_subject<T>(x: T) {
    oracle::subject(|| drop(x));
}

/// End-of-execution oracle (C03): nothing leaked, nothing corrupted, owners dropped once.
pub fn finish(w: &mut World) -> Vec<Vio> {
    let mut out = vec![];
    let end = oracle::end_execution();
    if let Some(m) = oracle::take_violation() {
        let case = if m.starts_with("double free") { "double-free" } else if m.starts_with("free with wrong layout") { "wrong-layout-free" } else { "bad-free" };
        out.push(Vio { property: "C02", case: case.into(), msg: format!("{} (while dropping the surviving handles)", m) });
        if case == "double-free" {
            out.push(Vio { property: "C03", case: case.into(), msg: m });
        }
    }
    if let Some(c) = end.corrupt {
        let case = if c.starts_with("write after free") { "write-after-free" } else { "heap-overflow" };
        out.push(Vio { property: "C02", case: case.into(), msg: c });
    }
    if !end.leaked.is_empty() {
        out.push(Vio { property: "C03", case: "leak".into(), msg: format!("storage leaked after every handle was dropped: blocks (size, align) {:?}", end.leaked) });
    }
    for (oi, o) in owners().iter().enumerate() {
        if o.created && o.drops != 1 {
            out.push(Vio { property: "C03", case: "owner-drop-count".into(), msg: format!("owner {} was dropped {} times by the time the last handle was gone", oi, o.drops) });
        }
        if o.created && o.as_ref_calls != 1 {
            out.push(Vio { property: "C03", case: "owner-as_ref-count".into(), msg: format!("owner {}: as_ref was called {} times", oi, o.as_ref_calls) });
        }
    }
    let _ = w;
    out
}
