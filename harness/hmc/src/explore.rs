//! Explicit-state search by replay (DESIGN.md §2.2): a state *is* its history; every
//! transition re-executes the history on fresh objects, applies one more operation with
//! all oracles on, takes the canonical key, and finishes with a drop-all epilogue.
use crate::key;
use crate::world::*;
use oracle::report::{hash128, Report};
use std::collections::{BTreeMap, BTreeSet, HashSet};

#[derive(Clone)]
pub struct Cfg {
    pub root: (usize, usize),
    pub parity_odd: bool,
    pub depth: usize,
    pub maxh: usize,
    pub max_roots: u32,
    /// allowed operation kinds (bit per K)
    pub alphabet: u64,
    pub ooc: bool,
    pub huge: bool,
    pub perms: bool,
    pub probes: bool,
    pub oom_probes: bool,
    pub oom_probe_depth: usize,
    pub dedup: bool,
    pub shard: (usize, usize),
    pub max_states: u64,
    pub property: String,
}

pub fn kbit(k: K) -> u64 {
    1u64 << (k as u8)
}
pub fn alphabet_named(name: &str) -> u64 {
    let all: u64 = ALL_K.iter().map(|k| kbit(*k)).sum();
    let set = |ks: &[K]| -> u64 { ks.iter().map(|k| kbit(*k)).sum() };
    match name {
        // F1: Bytes only
        "bytes" => set(&[K::Root, K::BClone, K::BSlice, K::BSliceRef, K::BSplitOff, K::BSplitTo, K::BTruncate, K::BClear, K::BAdvance, K::BCopyToBytes, K::BTryIntoMut, K::BIntoMut, K::BIntoVec, K::BDrop, K::MFreeze, K::MDrop]),
        // F2: BytesMut structure
        "bytesmut" => set(&[K::Root, K::MSplitOff, K::MSplitTo, K::MSplit, K::MUnsplit, K::MReserve, K::MTryReclaim, K::MExtend, K::MAdvance, K::MTruncate, K::MFreeze, K::BTryIntoMut, K::MDrop, K::BDrop, K::MFillSpare]),
        // F3: conversions
        "conv" => set(&[K::Root, K::MFreeze, K::BTryIntoMut, K::BIntoMut, K::BIntoVec, K::MIntoVec, K::BAdvance, K::BTruncate, K::MAdvance, K::MTruncate, K::BClone, K::BDrop, K::MDrop, K::MSplitTo]),
        _ => all,
    }
}

fn dedup_sorted(mut v: Vec<usize>) -> Vec<usize> {
    v.sort();
    v.dedup();
    v
}

/// `--rare-last`: also try the rarely used entry points as the last operation of a depth >= 4 exploration (thorough tiers)
pub static RARE_LAST: std::sync::atomic::AtomicBool = std::sync::atomic::AtomicBool::new(false);

/// Rarely used entry points whose effect does not depend on a deep history: in the quick tier they are tried as the first
/// and the second operation after the root (and the states they lead to are explored to the full depth), not deeper.
pub fn is_rare(op: &Op) -> bool {
    match op.k {
        K::MWriteStr => op.b >= 1,
        K::MExtendLie => op.t == 1,
        K::MResize => op.b == 1,
        K::MChunkMut => op.b == 1,
        K::MExtendIter => op.b >= 2,
        K::MUninitApi | K::MIntoIter | K::BIntoIter | K::BSliceBounds => true,
        _ => false,
    }
}

/// Enabled operations at the current state, simplest first.
pub fn enabled(w: &World, cfg: &Cfg) -> Vec<Op> {
    let mut v: Vec<Op> = vec![];
    let free = w.free_slot(cfg.maxh).is_some();
    let on = |k: K| cfg.alphabet & kbit(k) != 0;
    let mut add = |v: &mut Vec<Op>, op: Op| {
        if cfg.alphabet & kbit(op.k) != 0 && !v.contains(&op) {
            v.push(op);
        }
    };
    for i in 0..MAXH {
        let sl = match &w.slots[i] {
            Some(s) => s,
            None => continue,
        };
        match &sl.h {
            H::B(b) => {
                let l = b.len();
                let pts = dedup_sorted(vec![0, 1, l.saturating_sub(1), l].into_iter().filter(|&a| a <= l).collect());
                if free {
                    add(&mut v, Op::new(K::BClone, i, 0, 0, 0));
                    for (a, e) in [(0usize, 0usize), (0, 1), (0, l), (1, l), (1, l.saturating_sub(1)), (l.saturating_sub(1), l), (l, l)] {
                        if a <= e && e <= l {
                            add(&mut v, Op::new(K::BSlice, i, 0, a, e));
                        }
                    }
                    // slice_ref: own sub-slices, the empty slice, a slice of every other handle
                    for (a, e) in [(0usize, l), (1, l), (0, l.saturating_sub(1)), (0, 0)] {
                        if a <= e && e <= l {
                            add(&mut v, Op::new(K::BSliceRef, i, i, a, e));
                        }
                    }
                    for j in 0..MAXH {
                        if j != i {
                            if let Some(o) = &w.slots[j] {
                                let lj = o.h.len();
                                if lj > 0 && (cfg.ooc || slice_inside(&sl.h, &o.h, 0, lj)) {
                                    add(&mut v, Op::new(K::BSliceRef, i, j, 0, lj));
                                }
                                if lj > 1 && (cfg.ooc || slice_inside(&sl.h, &o.h, 1, lj)) {
                                    add(&mut v, Op::new(K::BSliceRef, i, j, 1, lj));
                                }
                            }
                        }
                    }
                    for &a in &pts {
                        add(&mut v, Op::new(K::BSplitOff, i, 0, a, 0));
                        add(&mut v, Op::new(K::BSplitTo, i, 0, a, 0));
                    }
                    for a in dedup_sorted(vec![0, 1, l]) {
                        if a <= l {
                            add(&mut v, Op::new(K::BCopyToBytes, i, 0, a, 0));
                        }
                    }
                }
                for a in dedup_sorted(vec![0, 1, l.saturating_sub(1), l, l + 1, usize::MAX]) {
                    add(&mut v, Op::new(K::BTruncate, i, 0, a, 0));
                }
                add(&mut v, Op::new(K::BClear, i, 0, 0, 0));
                for &a in &pts {
                    add(&mut v, Op::new(K::BAdvance, i, 0, a, 0));
                }
                add(&mut v, Op::new(K::BTryIntoMut, i, 0, 0, 0));
                add(&mut v, Op::new(K::BIntoMut, i, 0, 0, 0));
                add(&mut v, Op::new(K::BIntoVec, i, 0, 0, 0));
                add(&mut v, Op::new(K::BIntoVec, i, 0, 1, 0));
                add(&mut v, Op::new(K::BDrop, i, 0, 0, 0));
                add(&mut v, Op::new(K::BIntoIter, i, 0, 0, 0));
                if free && on(K::BSlice) {
                    // explicit Bound pairs: exclusive starts
                    if l >= 1 {
                        v.push(Op::new(K::BSliceBounds, i, 2, 0, 0)); // (Excluded(0), Unbounded) = 1..
                        v.push(Op::new(K::BSliceBounds, i, 2, l - 1, 0)); // empty tail
                        v.push(Op::new(K::BSliceBounds, i, 0, 0, l)); // 1..l
                        v.push(Op::new(K::BSliceBounds, i, 1, 0, l - 1)); // 1..=l-1
                        v.push(Op::new(K::BSliceBounds, i, 3, 0, l - 1)); // ..=l-1
                    }
                    v.push(Op::new(K::BSliceBounds, i, 4, l, 0)); // l..
                }
                if cfg.ooc && on(K::BSlice) {
                    v.push(Op::new(K::BSliceBounds, i, 2, l, 0)); // (Excluded(l), Unbounded): begin l+1 > end l
                    v.push(Op::new(K::BSliceBounds, i, 2, usize::MAX, 0)); // begin overflows
                    v.push(Op::new(K::BSliceBounds, i, 1, 0, l)); // ..=l past the end
                    v.push(Op::new(K::BSliceBounds, i, 1, 0, usize::MAX)); // end overflows
                    v.push(Op::new(K::BSliceBounds, i, 4, l + 1, 0)); // (Included(l+1), Unbounded)
                }
                if cfg.ooc {
                    add(&mut v, Op::new(K::BSlice, i, 0, 0, l + 1));
                    add(&mut v, Op::new(K::BSlice, i, 0, 2, 1));
                    add(&mut v, Op::new(K::BSlice, i, 0, l + 1, l + 1));
                    add(&mut v, Op::new(K::BSlice, i, 0, l + 1, l));
                    add(&mut v, Op::new(K::BSlice, i, 0, 0, usize::MAX));
                    if on(K::BSlice) {
                        v.push(Op::new(K::BSliceIncl, i, 0, 0, usize::MAX));
                        if l > 0 && free {
                            v.push(Op::new(K::BSliceIncl, i, 0, 0, l - 1)); // in contract: 0..=l-1
                        }
                        v.push(Op::new(K::BSliceIncl, i, 0, 0, l)); // 0..=l is out of range
                    }
                    if on(K::BSliceRef) {
                        v.push(Op::new(K::BSliceRefForeign, i, 0, 0, 0));
                    }
                    for a in [l + 1, l + 2, ISIZE_MAX + 1, usize::MAX] {
                        add(&mut v, Op::new(K::BSplitOff, i, 0, a, 0));
                        add(&mut v, Op::new(K::BSplitTo, i, 0, a, 0));
                        add(&mut v, Op::new(K::BAdvance, i, 0, a, 0));
                        add(&mut v, Op::new(K::BCopyToBytes, i, 0, a, 0));
                    }
                }
            }
            H::M(m) => {
                let (l, c) = (m.len(), m.capacity());
                let t = oracle::find_live(m.as_ptr() as usize).map_or(0, |bi| oracle::blocks()[bi].size);
                let lp = dedup_sorted(vec![0, 1, l.saturating_sub(1), l].into_iter().filter(|&a| a <= l).collect());
                if free {
                    for a in dedup_sorted(vec![0, 1, l, c.saturating_sub(1), c].into_iter().filter(|&a| a <= c).collect()) {
                        add(&mut v, Op::new(K::MSplitOff, i, 0, a, 0));
                    }
                    for &a in &lp {
                        add(&mut v, Op::new(K::MSplitTo, i, 0, a, 0));
                    }
                    add(&mut v, Op::new(K::MSplit, i, 0, 0, 0));
                    add(&mut v, Op::new(K::MClone, i, 0, 0, 0));
                    for a in dedup_sorted(vec![0, 1, l]) {
                        if a <= l {
                            add(&mut v, Op::new(K::MCopyToBytes, i, 0, a, 0));
                        }
                    }
                }
                for a in dedup_sorted(vec![0, 1, l.saturating_sub(1), l, l + 1]) {
                    add(&mut v, Op::new(K::MTruncate, i, 0, a, 0));
                }
                add(&mut v, Op::new(K::MClear, i, 0, 0, 0));
                for &a in &lp {
                    add(&mut v, Op::new(K::MAdvance, i, 0, a, 0));
                }
                for a in dedup_sorted(vec![0, l.saturating_sub(1), l + 1, c, c + 1, c + 3]) {
                    add(&mut v, Op::new(K::MResize, i, 0, a, 0));
                }
                // growing with the fill byte 0 (zero-fill fast paths)
                add(&mut v, Op::new(K::MResize, i, 0, c + 1, 1));
                add(&mut v, Op::new(K::MResize, i, 0, l + 1, 1));
                let mut rs = vec![0, 1, c - l, c - l + 1, 64, 1000];
                if t >= l {
                    rs.push(t - l);
                    rs.push(t - l + 1);
                }
                for a in dedup_sorted(rs) {
                    add(&mut v, Op::new(K::MReserve, i, 0, a, 0));
                    add(&mut v, Op::new(K::MTryReclaim, i, 0, a, 0));
                }
                // (t - l: exactly what the whole allocation could still take - reclaim windows of reserve_inner)
                for a in dedup_sorted(vec![0, 1, 2, c - l, c - l + 1, t.saturating_sub(l), t.saturating_sub(l) + 1].into_iter().filter(|&a| a <= 8).collect()) {
                    add(&mut v, Op::new(K::MExtend, i, 0, a, 0));
                }
                add(&mut v, Op::new(K::MPutU8, i, 0, 0, 0));
                for a in dedup_sorted(vec![0, 1, c - l, c - l + 1].into_iter().filter(|&a| a <= 8).collect()) {
                    add(&mut v, Op::new(K::MPutBytes, i, 0, a, 0));
                    add(&mut v, Op::new(K::MWriteStr, i, 0, a, 0));
                    add(&mut v, Op::new(K::MChunkMut, i, 0, a, 0));
                }
                // multi-byte characters through fmt::Write::write_char / write_fmt; chunk_mut asked twice before the commit
                add(&mut v, Op::new(K::MWriteStr, i, 0, 1, 1));
                add(&mut v, Op::new(K::MWriteStr, i, 0, 1, 2));
                add(&mut v, Op::new(K::MWriteStr, i, 0, 2, 3));
                add(&mut v, Op::new(K::MWriteStr, i, 0, 1, 4));
                add(&mut v, Op::new(K::MChunkMut, i, 0, 2, 1));
                for a in dedup_sorted(vec![0, 2, c - l + 1].into_iter().filter(|&a| a <= 8).collect()) {
                    add(&mut v, Op::new(K::MPutBuf, i, 0, a, 1));
                    add(&mut v, Op::new(K::MExtendIter, i, 0, a, 0));
                }
                add(&mut v, Op::new(K::MExtendIter, i, 0, 1, 1));
                // Extend<Bytes>: a static chunk, a uniquely held heap chunk, and one of 1 KiB
                add(&mut v, Op::new(K::MExtendIter, i, 0, 2, 2));
                add(&mut v, Op::new(K::MExtendIter, i, 0, 3, 3));
                add(&mut v, Op::new(K::MExtendIter, i, 0, 1024, 3));
                // lying size hints (too small / too large) and an iterator that panics after growth
                add(&mut v, Op::new(K::MExtendLie, i, 0, c - l + 1, 0));
                add(&mut v, Op::new(K::MExtendLie, i, 0, 1, 3));
                add(&mut v, Op::new(K::MExtendLie, i, 0, 0, 1));
                add(&mut v, Op::new(K::MExtendLie, i, 0, 2, c - l + 2));
                if cfg.huge {
                    // an unrepresentable lower bound together with items that would fit: must panic before appending anything
                    add(&mut v, Op::new(K::MExtendLie, i, 0, c - l + 1, usize::MAX));
                    add(&mut v, Op::new(K::MExtendLie, i, 0, 1, ISIZE_MAX + 1));
                }
                // exact-looking hints (lower == upper) that under-report
                add(&mut v, Op::new(K::MExtendLie, i, 1, c - l + 1, 0));
                add(&mut v, Op::new(K::MExtendLie, i, 1, c - l + 2, 1));
                add(&mut v, Op::new(K::MExtendPanic, i, 0, c - l + 1, 0));
                add(&mut v, Op::new(K::MExtendPanic, i, 0, 1, 0));
                add(&mut v, Op::new(K::MExtendPanic, i, 0, c - l + 1, c - l + 2));
                add(&mut v, Op::new(K::MPutUnder, i, 0, 1, 0));
                add(&mut v, Op::new(K::MPutUnder, i, 0, 4, 0));
                add(&mut v, Op::new(K::MIntoIter, i, 0, 0, 0));
                if l > 0 {
                    add(&mut v, Op::new(K::MWrite, i, 0, 0, 0));
                }
                if c > l {
                    add(&mut v, Op::new(K::MFillSpare, i, 0, 0, 0));
                }
                for j in 0..MAXH {
                    if j != i {
                        if let Some(Slot { h: H::M(_), .. }) = &w.slots[j] {
                            add(&mut v, Op::new(K::MUnsplit, i, j, 0, 0));
                        }
                    }
                }
                add(&mut v, Op::new(K::MFreeze, i, 0, 0, 0));
                add(&mut v, Op::new(K::MIntoVec, i, 0, 0, 0));
                add(&mut v, Op::new(K::MIntoVec, i, 0, 1, 0));
                add(&mut v, Op::new(K::MDrop, i, 0, 0, 0));
                if cfg.ooc {
                    if c > l {
                        for a in 0..3 {
                            add(&mut v, Op::new(K::MUninitApi, i, 0, a, 0));
                        }
                    }
                    for a in [c + 1, c + 2, ISIZE_MAX + 1, usize::MAX] {
                        add(&mut v, Op::new(K::MSplitOff, i, 0, a, 0));
                    }
                    for a in dedup_sorted(vec![l + 1, c, c + 1, ISIZE_MAX + 1, usize::MAX].into_iter().filter(|&a| a > l).collect()) {
                        add(&mut v, Op::new(K::MSplitTo, i, 0, a, 0));
                        add(&mut v, Op::new(K::MAdvance, i, 0, a, 0));
                        add(&mut v, Op::new(K::MCopyToBytes, i, 0, a, 0));
                    }
                }
                if cfg.huge {
                    // not representable or unsatisfiable sizes (none of these may reach the allocator with an allocatable size)
                    for a in dedup_sorted(vec![usize::MAX, usize::MAX - l, usize::MAX - l - 1, ISIZE_MAX - l + 1, ISIZE_MAX + 1, usize::MAX / 2 + 7]) {
                        if l.checked_add(a).map_or(true, |x| x > ISIZE_MAX) {
                            add(&mut v, Op::new(K::MReserve, i, 0, a, 0));
                            add(&mut v, Op::new(K::MTryReclaim, i, 0, a, 0));
                        }
                    }
                    // put_bytes with counts for which len + cnt is not representable: must panic (a capacity request that overflows)
                    for a in dedup_sorted(vec![usize::MAX, usize::MAX - l, (usize::MAX - l).saturating_add(1), ISIZE_MAX + 1, (ISIZE_MAX + 1).saturating_sub(l)]) {
                        if l.checked_add(a).map_or(true, |x| x > ISIZE_MAX) {
                            add(&mut v, Op::new(K::MPutBytes, i, 0, a, 0));
                        }
                    }
                    add(&mut v, Op::new(K::MResize, i, 0, usize::MAX, 0));
                    add(&mut v, Op::new(K::MResize, i, 0, ISIZE_MAX + 1, 0));
                    add(&mut v, Op::new(K::MResize, i, 0, usize::MAX, 1));
                    add(&mut v, Op::new(K::MTruncate, i, 0, usize::MAX, 0));
                }
            }
        }
    }
    if free && w.roots_used < cfg.max_roots && on(K::Root) {
        for (k, n) in [(R_BVEC_EXACT, 4usize), (R_BVEC_SPARE, 1), (R_MFROM, 4)] {
            v.push(Op::new(K::Root, 0, 0, k, n));
        }
        if oracle::is_adjacent() {
            // back-to-back allocations: a second buffer that is already in the shared form and full (what an adjacency
            // test that forgets to compare the owners would merge)
            v.push(Op::new(K::Root, 0, 0, R_MSHARED_FULL, 4));
        }
    }
    v
}

fn slice_inside(outer: &H, inner: &H, a: usize, b: usize) -> bool {
    let (op, ol) = (outer.ptr(), outer.len());
    let ip = inner.ptr() + a;
    ip >= op && ip + (b - a) <= op + ol
}

pub fn replay(hist: &[Op], cfg: &Cfg, check_last: bool) -> World {
    oracle::begin_execution(cfg.parity_odd);
    oracle::register_region(STATIC4.as_ptr() as usize, STATIC4.len(), REGION_STATIC);
    let mut w = World::new();
    w.check = false;
    let n = hist.len();
    for (i, op) in hist.iter().enumerate() {
        if i + 1 == n && check_last {
            w.check = true;
            w.step(*op);
            w.check_state();
        } else {
            w.step(*op);
        }
    }
    w
}

fn perms(items: &[usize]) -> Vec<Vec<usize>> {
    if items.len() <= 1 {
        return vec![items.to_vec()];
    }
    let mut out = vec![];
    for i in 0..items.len() {
        let mut rest = items.to_vec();
        let x = rest.remove(i);
        for mut p in perms(&rest) {
            p.insert(0, x);
            out.push(p);
        }
    }
    out
}

pub struct Explorer {
    pub cfg: Cfg,
    pub rep: Report,
    seen: HashSet<u128>,
    pub states: u64,
    pub transitions: u64,
    pub execs: u64,
    pub panics: u64,
    pub nontrivial: u64,
    pub perm_epilogues: u64,
    pub probes: u64,
    pub per_kind: BTreeMap<String, u64>,
    pub classes: BTreeSet<String>,
    pub capped: bool,
    pub level_sizes: Vec<u64>,
    /// the last transition violated a property: its state is reported, not explored further
    pub last_violated: bool,
}

impl Explorer {
    pub fn new(cfg: Cfg, engine: &str, config: &str) -> Explorer {
        let rep = Report::new(engine, &cfg.property, config);
        Explorer { cfg, rep, seen: HashSet::new(), states: 0, transitions: 0, execs: 0, panics: 0, nontrivial: 0, perm_epilogues: 0, probes: 0, per_kind: BTreeMap::new(), classes: BTreeSet::new(), capped: false, level_sizes: vec![], last_violated: false }
    }

    fn report(&mut self, v: &Vio, hist: &[Op], extra: &str) {
        let replay = format!(
            "{{\"engine\":\"hmc\",\"parity\":\"{}\",\"profile\":\"{}\",\"history\":{}{}}}",
            if oracle::is_adjacent() { "adjacent" } else if self.cfg.parity_odd { "odd" } else { "even" },
            if cfg!(debug_assertions) { "dbg" } else { "rel" },
            hist_json(hist),
            extra
        );
        let msg = format!("{} | history {}", v.msg, hist.iter().map(|o| format!("{:?}({},{},{},{})", o.k, o.s, o.t, fmt_arg(o.a), fmt_arg(o.b))).collect::<Vec<_>>().join(" ; "));
        self.rep.violate(v.property, &v.case, &msg, &replay);
    }

    /// Execute `hist` (last operation checked), epilogue; returns (key hash, vios, live slots, classes)
    fn transition(&mut self, hist: &[Op]) -> (u128, Vec<usize>) {
        oracle::sys::set_crash_note(&hist_json(hist));
        self.execs += 1;
        let mut w = replay(hist, &self.cfg, true);
        if w.last.panicked {
            self.panics += 1;
        }
        let k = hash128(&key::key(&w));
        for c in key::repr_class(&w) {
            if !self.classes.contains(&c) {
                self.classes.insert(c);
            }
        }
        let live: Vec<usize> = (0..MAXH).filter(|&i| w.slots[i].is_some()).collect();
        let mut vios = std::mem::take(&mut w.vios);
        w.drop_all(&live);
        vios.extend(finish(&mut w));
        // C13: "after the panic is caught ... all storage is still released exactly once": a memory error or a leak
        // in a history that contains a caught panic is a violation of C13 as well
        if w.panics_seen > 0 {
            let extra: Vec<Vio> = vios
                .iter()
                .filter(|v| v.property == "C02" || v.property == "C03")
                .map(|v| Vio { property: "C13", case: format!("after-panic:{}", v.case), msg: format!("in a history with {} caught panic(s): {}", w.panics_seen, v.msg) })
                .collect();
            vios.extend(extra);
        }
        // C04: "the regions [as_ptr, as_ptr+capacity) ... are contained in a single live allocation, so a write through one
        // BytesMut is never visible through another handle": a heap overflow / write outside the block right after an
        // operation on a BytesMut is a write through that handle outside its region
        if let Some(last) = hist.last() {
            let on_mut = format!("{:?}", last.k).starts_with('M');
            if on_mut {
                let extra: Vec<Vio> = vios
                    .iter()
                    .filter(|v| v.property == "C02" && (v.case == "heap-overflow" || v.case == "heap-underflow" || v.case == "write-after-free" || v.case == "put-under-state" || v.case == "uninit-slice-oob-write"))
                    .map(|v| Vio { property: "C04", case: format!("write-outside-region:{}", v.case), msg: format!("{:?} wrote outside the capacity region of its BytesMut: {}", last.k, v.msg) })
                    .collect();
                vios.extend(extra);
            }
        }
        for v in &vios {
            self.report(v, hist, "");
        }
        // only a violation of the property under check ends the exploration of this branch (its counter-example is
        // complete); violations of other properties are noted and the search goes on below them
        self.last_violated = vios.iter().any(|v| v.property == self.cfg.property);
        (k, live)
    }

    pub fn run(&mut self) {
        let cfg = self.cfg.clone();
        let root_hist = vec![Op::new(K::Root, 0, 0, cfg.root.0, cfg.root.1)];
        let (k0, live0) = self.transition(&root_hist);
        self.seen.insert(k0);
        self.states = 1;
        self.transitions = 1;
        self.on_new_state(&root_hist, &live0);
        let mut frontier: Vec<Vec<Op>> = vec![root_hist];
        for depth in 1..=cfg.depth {
            let mut next: Vec<Vec<Op>> = vec![];
            let mut new_here = 0u64;
            for hist in &frontier {
                // enabled actions at this state
                self.execs += 1;
                let mut w = replay(hist, &cfg, false);
                let acts = enabled(&w, &cfg);
                let parent_key = hash128(&key::key(&w));
                let live: Vec<usize> = (0..MAXH).filter(|&i| w.slots[i].is_some()).collect();
                w.drop_all(&live);
                let _ = oracle::end_execution();
                let _ = oracle::take_violation();
                let skip_rare = depth > 2.max(cfg.depth.saturating_sub(2)) && !RARE_LAST.load(std::sync::atomic::Ordering::Relaxed);
                for (ai, act) in acts.iter().enumerate() {
                    if depth == 1 && cfg.shard.1 > 1 && ai % cfg.shard.1 != cfg.shard.0 {
                        continue;
                    }
                    if skip_rare && is_rare(act) {
                        continue;
                    }
                    let mut h2 = hist.clone();
                    h2.push(*act);
                    let (k, live2) = self.transition(&h2);
                    self.transitions += 1;
                    *self.per_kind.entry(format!("{:?}", act.k)).or_insert(0) += 1;
                    if k != parent_key {
                        self.nontrivial += 1;
                    }
                    let violated = self.last_violated;
                    let is_new = if cfg.dedup { self.seen.insert(k) } else { true };
                    if is_new && violated {
                        // a violating state is reported with its history; nothing is explored below it
                        self.states += 1;
                        new_here += 1;
                    } else if is_new {
                        self.states += 1;
                        new_here += 1;
                        self.on_new_state(&h2, &live2);
                        if depth < cfg.depth {
                            next.push(h2);
                        }
                        if self.states % 50_000 == 1 && self.rep.samples.len() < 8 {
                            let s = format!("depth {}: {}", depth, hist_json(&next.last().cloned().unwrap_or_default()));
                            self.rep.sample(s);
                        }
                    }
                    if self.states >= cfg.max_states || self.rep.saturated() {
                        self.capped = true;
                        break;
                    }
                }
                if self.capped {
                    break;
                }
            }
            self.level_sizes.push(new_here);
            if self.capped {
                if self.rep.saturated() {
                    self.rep.caps.push(format!("stopped after {} distinct violations at depth {}", self.rep.violations.len(), depth));
                } else {
                    self.rep.caps.push(format!("state cap {} hit at depth {} (depth {} fully explored)", cfg.max_states, depth, depth - 1));
                }
                break;
            }
            frontier = next;
            if frontier.is_empty() {
                break;
            }
        }
    }

    /// Extra work at every *new* canonical state: all-permutation epilogues (C03) and
    /// sole-owner reclaim probes (C08 v).
    fn on_new_state(&mut self, hist: &[Op], live: &[usize]) {
        let cfg = self.cfg.clone();
        if cfg.perms && live.len() >= 2 {
            for p in perms(live) {
                if p == live {
                    continue; // the identity order was the epilogue of the transition itself
                }
                self.execs += 1;
                self.perm_epilogues += 1;
                oracle::sys::set_crash_note(&format!("{} drop-order {:?}", hist_json(hist), p));
                let mut w = replay(hist, &cfg, false);
                w.drop_all(&p);
                let vios = finish(&mut w);
                for v in &vios {
                    let extra = format!(",\"drop_order\":{:?}", p);
                    self.report(v, hist, &extra);
                }
            }
        }
        if cfg.probes {
            self.reclaim_probes(hist);
        }
        if cfg.oom_probes && hist.len() <= cfg.oom_probe_depth + 1 {
            self.oom_probes(hist);
        }
    }

    /// C08 (v): an empty BytesMut with no related live handle can take the whole allocation back.
    fn reclaim_probes(&mut self, hist: &[Op]) {
        let cfg = self.cfg.clone();
        // find qualifying slots
        self.execs += 1;
        let mut w = replay(hist, &cfg, false);
        let mut cands: Vec<(usize, usize)> = vec![];
        for i in 0..MAXH {
            if let Some(sl) = &w.slots[i] {
                if let H::M(m) = &sl.h {
                    let related = (0..MAXH).any(|j| j != i && w.slots[j].as_ref().map_or(false, |o| o.fam & sl.fam != 0));
                    // in the adjacent-arena configuration a boundary address belongs to two blocks: which of them an
                    // empty zero-capacity handle pins cannot be told from the outside, so it is not probed there
                    let p = m.as_ptr() as usize;
                    let owners = oracle::blocks().iter().filter(|b| b.live && p >= b.user && p <= b.user + b.size).count();
                    if m.is_empty() && !related && owners == 1 {
                        if let Some(bi) = oracle::find_live(m.as_ptr() as usize) {
                            let t = oracle::blocks()[bi].size;
                            if m.capacity() > 0 || t > 0 {
                                cands.push((i, t));
                            }
                        }
                    }
                }
            }
        }
        let live: Vec<usize> = (0..MAXH).filter(|&i| w.slots[i].is_some()).collect();
        w.drop_all(&live);
        let _ = oracle::end_execution();
        let _ = oracle::take_violation();
        for (slot, t) in cands {
            for n in dedup_sorted(vec![0, 1, t.saturating_sub(1), t]) {
                for reserve in [false, true] {
                    self.execs += 1;
                    self.probes += 1;
                    let mut w = replay(hist, &cfg, false);
                    w.check = true;
                    let op = Op::new(if reserve { K::MReserve } else { K::MTryReclaim }, slot, 0, n, 0);
                    w.step(op);
                    w.check_state();
                    let mut vios = std::mem::take(&mut w.vios);
                    if !w.last.panicked {
                        if !reserve && w.last.ret != 1 {
                            vios.push(Vio { property: "C08", case: "sole-owner-reclaim-false".into(), msg: format!("try_reclaim({}) returned false on an empty BytesMut that is alone on an allocation of {} bytes", n, t) });
                        }
                        if reserve && !oracle::events().is_empty() {
                            vios.push(Vio { property: "C08", case: "sole-owner-reserve-allocated".into(), msg: format!("reserve({}) allocated although the handle is empty and alone on an allocation of {} bytes ({} allocator events)", n, t, oracle::events().len()) });
                        }
                    }
                    let live: Vec<usize> = (0..MAXH).filter(|&i| w.slots[i].is_some()).collect();
                    w.drop_all(&live);
                    vios.extend(finish(&mut w));
                    let mut h2 = hist.to_vec();
                    h2.push(op);
                    for v in &vios {
                        self.report(v, &h2, "");
                    }
                }
            }
        }
    }

    /// C02: allocatable-but-huge requests, each in a forked child (allocation failure aborts).
    fn oom_probes(&mut self, hist: &[Op]) {
        let cfg = self.cfg.clone();
        self.execs += 1;
        let mut w = replay(hist, &cfg, false);
        let mslots: Vec<(usize, usize)> = (0..MAXH).filter_map(|i| w.slots[i].as_ref().and_then(|s| if let H::M(m) = &s.h { Some((i, m.len())) } else { None })).collect();
        let live: Vec<usize> = (0..MAXH).filter(|&i| w.slots[i].is_some()).collect();
        w.drop_all(&live);
        let _ = oracle::end_execution();
        let _ = oracle::take_violation();
        for (slot, l) in mslots {
            for op in [Op::new(K::MReserve, slot, 0, 1usize << 40, 0), Op::new(K::MReserve, slot, 0, ISIZE_MAX - l, 0), Op::new(K::MResize, slot, 0, 1usize << 40, 0), Op::new(K::MTryReclaim, slot, 0, 1usize << 40, 0)] {
                self.probes += 1;
                let mut h2 = hist.to_vec();
                h2.push(op);
                let cfg2 = cfg.clone();
                let h3 = h2.clone();
                let (oc, text) = oracle::sys::fork_probe(move || {
                    oracle::sys::set_crash_note(&hist_json(&h3));
                    let mut w = replay(&h3, &cfg2, true);
                    let mut vios = std::mem::take(&mut w.vios);
                    let live: Vec<usize> = (0..MAXH).filter(|&i| w.slots[i].is_some()).collect();
                    w.drop_all(&live);
                    vios.extend(finish(&mut w));
                    // a panic instead of an abort is fine; so is a normal return that kept every oracle happy
                    let vios: Vec<&Vio> = vios.iter().filter(|v| !(v.case.ends_with("-panic") && (v.property == "C04" || v.property == "C01"))).collect();
                    if let Some(v) = vios.first() {
                        oracle::sys::probe_say(&format!("{}\t{}\t{}", v.property, v.case, v.msg));
                        1
                    } else {
                        0
                    }
                });
                use oracle::sys::ProbeOutcome::*;
                match oc {
                    Exit(0) | Oom => {}
                    Exit(1) => {
                        let mut it = text.splitn(3, '\t');
                        let (p, c, m) = (it.next().unwrap_or("C02"), it.next().unwrap_or("probe"), it.next().unwrap_or(""));
                        let prop: &'static str = match p {
                            "C01" => "C01",
                            "C03" => "C03",
                            "C04" => "C04",
                            "C13" => "C13",
                            _ => "C02",
                        };
                        self.report(&Vio { property: prop, case: c.into(), msg: format!("(huge-request probe) {}", m) }, &h2, "");
                    }
                    Exit(c) => self.report(&Vio { property: "C02", case: "probe-exit".into(), msg: format!("huge-request probe exited with unexpected code {}", c) }, &h2, ""),
                    Crash(t) => self.report(&Vio { property: "C02", case: "crash".into(), msg: format!("process crashed without an allocation failure during a huge request: {}", t.trim()) }, &h2, ""),
                }
            }
        }
    }

    pub fn finish_report(mut self) -> Report {
        self.rep.states = self.states;
        self.rep.transitions = self.transitions;
        self.rep.traces = self.execs;
        self.rep.evaluations = self.execs;
        self.rep.distinct_nontrivial = self.nontrivial;
        self.rep.exhaustive = !self.capped;
        self.rep.extra_num("panicking_transitions", self.panics);
        self.rep.extra_num("perm_epilogues", self.perm_epilogues);
        self.rep.extra_num("probes", self.probes);
        self.rep.extra_num("depth", self.cfg.depth as u64);
        self.rep.extra_str("root", &format!("{} (len {})", root_name(self.cfg.root.0), self.cfg.root.1));
        self.rep.extra.push(("new_states_per_level".into(), format!("{:?}", self.level_sizes)));
        self.rep.extra.push(("representation_classes".into(), format!("[{}]", self.classes.iter().map(|c| oracle::report::jstr(c)).collect::<Vec<_>>().join(","))));
        self.rep.extra.push(("transitions_per_operation".into(), format!("{{{}}}", self.per_kind.iter().map(|(k, v)| format!("{}:{}", oracle::report::jstr(k), v)).collect::<Vec<_>>().join(","))));
        if self.rep.samples.is_empty() {
            self.rep.sample(format!("root {}", root_name(self.cfg.root.0)));
        }
        self.rep
    }
}

fn fmt_arg(a: usize) -> String {
    if a == usize::MAX {
        "usize::MAX".into()
    } else if a > ISIZE_MAX {
        format!("isize::MAX+{}", a - ISIZE_MAX)
    } else if a > (1 << 40) {
        format!("isize::MAX-{}", ISIZE_MAX - a)
    } else {
        a.to_string()
    }
}

// ------------------------------------------------------------------ C16: configuration digests

/// Address-free observable record of one history: per step (panicked, return value), then the
/// final contents, lengths and capacities of every slot.
fn observe_history(hist: &[Op], cfg: &Cfg) -> (String, Vec<Op>) {
    oracle::begin_execution(cfg.parity_odd);
    oracle::register_region(STATIC4.as_ptr() as usize, STATIC4.len(), REGION_STATIC);
    let mut w = World::new();
    w.check = false;
    let mut rec = String::new();
    for op in hist {
        w.step(*op);
        rec.push_str(&format!("{}{}:", if w.last.panicked { 'P' } else { 'r' }, w.last.ret));
    }
    for i in 0..MAXH {
        match &w.slots[i] {
            Some(sl) => {
                let readable = sl.h.len() == 0 || oracle::find_live(sl.h.ptr()).is_some() || oracle::find_region(sl.h.ptr()).is_some();
                rec.push_str(&format!("|{}{},{},{:02x?}", if sl.h.is_b() { 'B' } else { 'M' }, sl.h.len(), sl.h.cap(), if readable { sl.h.bytes().to_vec() } else { vec![] }));
                if let H::B(b) = &sl.h {
                    rec.push(if b.is_unique() { 'u' } else { 's' });
                }
            }
            None => rec.push_str("|-"),
        }
    }
    let next = enabled(&w, cfg);
    let live: Vec<usize> = (0..MAXH).filter(|&i| w.slots[i].is_some()).collect();
    w.drop_all(&live);
    let end = oracle::end_execution();
    let _ = oracle::take_violation();
    rec.push_str(&format!("|leak{}", end.leaked.len()));
    (rec, next)
}

/// Enumerate every history up to `cfg.depth` WITHOUT deduplication; returns per bucket
/// (= index of the first operation after the root) a digest of all records in order, the
/// number of histories, and optionally the records of one bucket.
pub fn digest(cfg: &Cfg, dump_bucket: Option<usize>) -> (Vec<(usize, u128, u64)>, Vec<String>, u64) {
    let root = vec![Op::new(K::Root, 0, 0, cfg.root.0, cfg.root.1)];
    let (rec0, first) = observe_history(&root, cfg);
    let mut buckets: Vec<(usize, u128, u64)> = vec![];
    let mut dump: Vec<String> = vec![];
    let mut total = 1u64;
    buckets.push((usize::MAX, hash128(rec0.as_bytes()), 1));
    for (bi, a) in first.iter().enumerate() {
        if let Some(d) = dump_bucket {
            if d != bi {
                continue;
            }
        }
        let mut h: u128 = 0;
        let mut n = 0u64;
        // DFS in enumeration order
        let mut stack: Vec<Vec<Op>> = vec![vec![root[0], *a]];
        while let Some(hist) = stack.pop() {
            oracle::sys::set_crash_note(&hist_json(&hist));
            let (rec, next) = observe_history(&hist, cfg);
            n += 1;
            h = hash128(&[&h.to_le_bytes()[..], rec.as_bytes()].concat());
            if dump_bucket.is_some() {
                dump.push(format!("{}\t{}", hist_json(&hist), rec));
            }
            if hist.len() <= cfg.depth {
                for op in next.iter().rev() {
                    let mut h2 = hist.clone();
                    h2.push(*op);
                    stack.push(h2);
                }
            }
        }
        total += n;
        buckets.push((bi, h, n));
    }
    (buckets, dump, total)
}
