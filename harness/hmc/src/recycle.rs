//! Engine A' (DESIGN.md §3 C18): the recycle protocol as a nondeterministic transition
//! system over the real crate, explored breadth-first over canonical states *to fixpoint*
//! (the closed graph covers histories of every length), plus SCC analysis ("no allocating
//! transition on a cycle") and an exhaustive enumeration of periodic schedules.
use bytes::verif::{Repr, M_ARC};
use bytes::{Buf, Bytes, BytesMut};
use oracle::report::{hash128, Report};
use std::collections::{HashMap, VecDeque};

#[derive(Clone, Copy, PartialEq, Eq, Hash, Debug)]
pub enum RAct {
    /// reserve(n) + append n bytes
    Refill(usize),
    /// append n bytes through another entry point (each reserves internally): 1 Extend<u8> with an exact size hint,
    /// 2 Extend<u8> with lower bound 0 (a filter adaptor), 3 put_slice, 4 put_bytes, 5 chunk_mut()/advance_mut loop, 6 resize
    RefillVia(usize, u8),
    /// split() -> part (frozen?)
    Split(bool),
    /// split_to(code) -> part (frozen?)   code: 0 = 1 byte, 1 = half, 2 = all but one
    SplitTo(u8, bool),
    Advance(u8),
    Truncate(u8),
    Clear,
    /// freeze and convert back (try_into_mut, falling back to a copy)
    RoundTrip,
    /// newest retained BytesMut part: clear it, unsplit the buffer into it, continue with it
    UnsplitInto,
    /// tail = split_off(len); buf.unsplit(tail)
    SplitOffUnsplit,
    /// head = split_to(code); head.clear(); head.unsplit(buf); continue with head
    SwapHead(u8),
    DropOldest,
    /// consume through Buf::copy_to_bytes(code) (3 = everything); the returned Bytes is the part
    CopyOut(u8),
    /// split() / split_to(code) and convert the part into a Vec<u8> (code 9 = split())
    SplitVec(u8),
    /// split_off(0): the part takes everything, the recycling handle keeps an empty window at the front
    SplitOffAll(bool),
    /// part = split(); buf.unsplit(part): the consumed part is put back onto the (empty, still roomy) remainder
    SplitBack,
}

pub enum Part {
    B(Bytes),
    M(BytesMut),
    V(Vec<u8>),
}
impl Part {
    fn ptr(&self) -> usize {
        match self {
            Part::B(b) => b.as_ptr() as usize,
            Part::M(m) => m.as_ptr() as usize,
            Part::V(v) => v.as_ptr() as usize,
        }
    }
    fn len(&self) -> usize {
        match self {
            Part::B(b) => b.len(),
            Part::M(m) => m.len(),
            Part::V(v) => v.capacity(),
        }
    }
}

#[derive(Clone, Debug)]
pub struct Params {
    pub name: String,
    pub init_cap: usize,
    pub ns: Vec<usize>,
    pub k: usize,
    pub max_leftover: usize,
    pub quantum: usize,
    pub roundtrip: bool,
    pub unsplit: bool,
    /// refill through every appending entry point, not only reserve + extend_from_slice
    pub appends: bool,
    /// also consume by split_off(0) and by split() + unsplit-back (kept out of the fixpoint searches: they make the
    /// capacity window take every value, the graph stays finite but no longer closes within the budget)
    pub splits: bool,
    pub parity_odd: bool,
    pub max_states: usize,
    /// wall-clock budget of one fixpoint search (a search that does not close in time is reported as non-exhaustive)
    pub max_seconds: u64,
}

pub struct Sys {
    pub buf: BytesMut,
    pub q: VecDeque<Part>,
    pub fill: u8,
}

/// consumption amounts, in units of `q` (1 for the small sets, 100 for the threshold sets so
/// that lengths stay on a grid and the graph stays finite and small)
fn resolve(code: u8, len: usize, q: usize) -> usize {
    let x = match code {
        0 => q,
        1 => ((len / 2 + q - 1) / q) * q,
        _ => len.saturating_sub(q),
    };
    x.max(q.min(len)).min(len)
}

impl Sys {
    pub fn new(p: &Params) -> Sys {
        let buf = oracle::subject(|| BytesMut::with_capacity(p.init_cap));
        Sys { buf, q: VecDeque::new(), fill: 1 }
    }

    pub fn enabled(&self, p: &Params) -> Vec<RAct> {
        let mut v = vec![];
        let l = self.buf.len();
        if l <= p.max_leftover {
            for &n in &p.ns {
                v.push(RAct::Refill(n));
            }
            if p.appends {
                for &n in &p.ns {
                    for mode in 1..=8u8 {
                        v.push(RAct::RefillVia(n, mode));
                    }
                }
            }
        }
        if l > 0 {
            for f in [false, true] {
                v.push(RAct::Split(f));
                let mut seen = vec![];
                for c in 0..3u8 {
                    let x = resolve(c, l, p.quantum);
                    if x < l && !seen.contains(&x) {
                        seen.push(x);
                        v.push(RAct::SplitTo(c, f));
                    }
                }
            }
            let mut seen = vec![];
            for c in 0..3u8 {
                let x = resolve(c, l, p.quantum);
                if !seen.contains(&x) {
                    seen.push(x);
                    v.push(RAct::Advance(c));
                    if x < l {
                        v.push(RAct::Truncate(c));
                    }
                }
            }
            v.push(RAct::Clear);
            if p.appends {
                let mut seen = vec![];
                for c in 0..4u8 {
                    let x = if c == 3 { l } else { resolve(c, l, p.quantum) };
                    if !seen.contains(&x) {
                        seen.push(x);
                        v.push(RAct::CopyOut(c));
                    }
                }
                v.push(RAct::SplitVec(9));
                if p.splits {
                    v.push(RAct::SplitOffAll(false));
                    v.push(RAct::SplitOffAll(true));
                    v.push(RAct::SplitBack);
                }
                let x = resolve(1, l, p.quantum);
                if x < l {
                    v.push(RAct::SplitVec(1));
                }
            }
        }
        if p.roundtrip {
            v.push(RAct::RoundTrip);
        }
        if p.unsplit {
            if let Some(Part::M(_)) = self.q.back() {
                v.push(RAct::UnsplitInto);
            }
            if l > 0 {
                v.push(RAct::SplitOffUnsplit);
                let mut seen = vec![];
                for c in 0..3u8 {
                    let x = resolve(c, l, p.quantum);
                    if !seen.contains(&x) {
                        seen.push(x);
                        v.push(RAct::SwapHead(c));
                    }
                }
            }
        }
        if !self.q.is_empty() {
            v.push(RAct::DropOldest);
        }
        v
    }

    /// A produced part enters the retention window; the window holds at most `k` parts, the
    /// oldest is dropped at once when it overflows (k = 0: every part is dropped immediately,
    /// i.e. before the next refill).
    fn push_part(&mut self, part: Part, k: usize) {
        oracle::harness(|| self.q.push_back(part));
        while self.q.len() > k {
            let old = oracle::harness(|| self.q.pop_front());
            oracle::subject(|| drop(old));
        }
    }

    /// Apply one action (must be enabled). Everything the crate allocates is attributed.
    pub fn apply(&mut self, a: RAct, p: &Params) {
        oracle::clear_events();
        match a {
            RAct::Refill(n) => {
                // parts retained beyond the window are dropped before the refill
                while self.q.len() > p.k {
                    let old = oracle::harness(|| self.q.pop_front());
                    oracle::subject(|| drop(old));
                }
                oracle::clear_events();
                let fill = self.fill;
                self.fill = self.fill.wrapping_add(1) | 1;
                let data = oracle::harness(|| vec![fill; n]);
                oracle::subject(|| {
                    self.buf.reserve(n);
                    self.buf.extend_from_slice(&data);
                });
            }
            RAct::RefillVia(n, mode) => {
                while self.q.len() > p.k {
                    let old = oracle::harness(|| self.q.pop_front());
                    oracle::subject(|| drop(old));
                }
                oracle::clear_events();
                let fill = self.fill;
                self.fill = self.fill.wrapping_add(1) | 1;
                let data = oracle::harness(|| vec![fill; n]);
                oracle::subject(|| {
                    use bytes::BufMut;
                    match mode {
                        1 => self.buf.extend(data.iter().copied()),
                        2 => self.buf.extend(data.iter().copied().filter(|_| true)),
                        3 => self.buf.put_slice(&data),
                        4 => self.buf.put_bytes(fill, n),
                        5 => {
                            let mut done = 0;
                            while done < n {
                                let c = self.buf.chunk_mut();
                                let k = c.len().min(n - done);
                                c[..k].copy_from_slice(&data[done..done + k]);
                                unsafe { self.buf.advance_mut(k) };
                                done += k;
                            }
                        }
                        6 => {
                            let l = self.buf.len();
                            self.buf.resize(l + n, fill)
                        }
                        7 => {
                            // zero fill (a zero-fill fast path is a different code path)
                            let l = self.buf.len();
                            self.buf.resize(l + n, 0)
                        }
                        _ => {
                            // Extend<Bytes> with one static chunk
                            static POOL: [u8; 8192] = [0x5B; 8192];
                            self.buf.extend([bytes::Bytes::from_static(&POOL[..n.min(8192)])])
                        }
                    }
                });
            }
            RAct::Split(f) => {
                let part = oracle::subject(|| {
                    let m = self.buf.split();
                    if f {
                        Part::B(m.freeze())
                    } else {
                        Part::M(m)
                    }
                });
                self.push_part(part, p.k);
            }
            RAct::SplitTo(c, f) => {
                let at = resolve(c, self.buf.len(), p.quantum);
                let part = oracle::subject(|| {
                    let m = self.buf.split_to(at);
                    if f {
                        Part::B(m.freeze())
                    } else {
                        Part::M(m)
                    }
                });
                self.push_part(part, p.k);
            }
            RAct::Advance(c) => {
                let at = resolve(c, self.buf.len(), p.quantum);
                oracle::subject(|| self.buf.advance(at));
            }
            RAct::Truncate(c) => {
                let at = resolve(c, self.buf.len(), p.quantum);
                oracle::subject(|| self.buf.truncate(at));
            }
            RAct::Clear => oracle::subject(|| self.buf.clear()),
            RAct::RoundTrip => {
                oracle::subject(|| {
                    let b = std::mem::replace(&mut self.buf, BytesMut::new());
                    let fr = b.freeze();
                    self.buf = match fr.try_into_mut() {
                        Ok(m) => m,
                        Err(b) => BytesMut::from(b),
                    };
                });
            }
            RAct::UnsplitInto => {
                if let Some(Part::M(mut head)) = oracle::harness(|| self.q.pop_back()) {
                    oracle::subject(|| {
                        head.clear();
                        let rest = std::mem::replace(&mut self.buf, BytesMut::new());
                        head.unsplit(rest);
                        self.buf = head;
                    });
                }
            }
            RAct::SplitOffUnsplit => {
                oracle::subject(|| {
                    let l = self.buf.len();
                    let tail = self.buf.split_off(l);
                    self.buf.unsplit(tail);
                });
            }
            RAct::SwapHead(c) => {
                let at = resolve(c, self.buf.len(), p.quantum);
                oracle::subject(|| {
                    let mut head = self.buf.split_to(at);
                    head.clear();
                    let rest = std::mem::replace(&mut self.buf, BytesMut::new());
                    head.unsplit(rest);
                    self.buf = head;
                });
            }
            RAct::DropOldest => {
                let old = oracle::harness(|| self.q.pop_front());
                oracle::subject(|| drop(old));
            }
            RAct::CopyOut(c) => {
                let l = self.buf.len();
                let at = if c == 3 { l } else { resolve(c, l, p.quantum) };
                let part = oracle::subject(|| Part::B(self.buf.copy_to_bytes(at)));
                self.push_part(part, p.k);
            }
            RAct::SplitOffAll(f) => {
                let part = oracle::subject(|| {
                    let m = self.buf.split_off(0);
                    if f {
                        Part::B(m.freeze())
                    } else {
                        Part::M(m)
                    }
                });
                self.push_part(part, p.k);
            }
            RAct::SplitBack => {
                oracle::subject(|| {
                    let part = self.buf.split();
                    self.buf.unsplit(part);
                });
            }
            RAct::SplitVec(c) => {
                let l = self.buf.len();
                let part = oracle::subject(|| {
                    let m = if c == 9 { self.buf.split() } else { self.buf.split_to(resolve(c, l, p.quantum)) };
                    Part::V(Vec::from(m))
                });
                // converting a part that still shares the buffer into a Vec copies it by design: that allocation is the
                // caller's choice, not the recycling handle's, and is not counted as a byte-buffer allocation of the protocol
                oracle::clear_events();
                self.push_part(part, p.k);
            }
        }
    }

    pub fn teardown(self) {
        let Sys { buf, q, .. } = self;
        oracle::subject(|| {
            drop(buf);
            drop(q);
        });
    }

    /// Canonical key: full descriptor of the recycling handle; for each retained part only
    /// which live block it pins and that block's size (parts are inert: they are only ever
    /// dropped), except the newest part when unsplit is in the alphabet.
    pub fn key(&self, p: &Params) -> Vec<u8> {
        let mut out: Vec<u8> = Vec::with_capacity(128);
        let push = |o: &mut Vec<u8>, v: usize| o.extend_from_slice(&(v as u64).to_le_bytes());
        let r: Repr = self.buf.verif_repr();
        let mut names: Vec<usize> = vec![];
        let mut blk = |addr: usize, names: &mut Vec<usize>| -> (usize, usize, usize) {
            match oracle::find_live(addr) {
                Some(bi) => {
                    let b = oracle::blocks()[bi];
                    let n = match names.iter().position(|x| *x == bi) {
                        Some(n) => n,
                        None => {
                            names.push(bi);
                            names.len() - 1
                        }
                    };
                    (n + 1, addr - b.user, b.size)
                }
                None => (0, 0, 0),
            }
        };
        out.push(r.kind);
        push(&mut out, r.len);
        push(&mut out, r.cap);
        let (n, off, size) = blk(r.ptr, &mut names);
        push(&mut out, n);
        push(&mut out, off);
        push(&mut out, size);
        push(&mut out, r.orig_cap_repr);
        if r.kind == M_ARC {
            push(&mut out, r.ref_cnt);
            push(&mut out, r.buf_cap);
            push(&mut out, r.buf_len.min(1)); // the Vec's len field is not used by BytesMut (only 0 / non-0 matters for reserve)
        } else {
            push(&mut out, r.vec_pos);
        }
        out.push(0xfd);
        let nq = self.q.len();
        for (i, part) in self.q.iter().enumerate() {
            let newest_full = p.unsplit && i + 1 == nq;
            let (n, off, size) = if part.len() > 0 || matches!(part, Part::M(_)) { blk(part.ptr(), &mut names) } else { (0, 0, 0) };
            out.push(match part {
                Part::B(_) => 1,
                Part::M(_) => 2,
                Part::V(_) => 3,
            });
            push(&mut out, n);
            push(&mut out, size);
            if newest_full {
                push(&mut out, off);
                push(&mut out, part.len());
                if let Part::M(m) = part {
                    push(&mut out, m.capacity());
                    push(&mut out, m.verif_repr().kind as usize);
                }
            }
            // an empty frozen part may still hold a reference: keep its control block identity
            let ctrl = match part {
                Part::B(b) => b.verif_repr().ctrl,
                Part::M(m) => m.verif_repr().ctrl,
                Part::V(_) => 0,
            };
            let (cn, _, csz) = blk(ctrl, &mut names);
            push(&mut out, cn);
            push(&mut out, csz);
        }
        out.push(0xfe);
        // blocks nobody refers to (leaked): as a multiset, capped so that a leak shows up as growth
        let mut rest: Vec<usize> = oracle::blocks().iter().enumerate().filter(|(i, b)| b.live && !names.contains(i)).map(|(_, b)| b.size).collect();
        rest.sort();
        for s in rest {
            push(&mut out, s);
        }
        out
    }
}

/// Explicit bound on live heap memory: 64 x (largest simultaneously live payload + initial and
/// original capacity + control blocks). Correct code sits near 2-4 x the payload.
fn live_limit(p: &Params) -> usize {
    let payload = (p.k + 2) * (p.max_leftover + p.ns.iter().max().unwrap());
    let orig = if p.init_cap >= 1024 { p.init_cap.next_power_of_two().min(1 << 16) } else { 0 };
    64 * (payload + p.init_cap + (p.k + 2) * orig + (p.k + 2) * 48)
}

fn replay(hist: &[RAct], p: &Params) -> Sys {
    oracle::begin_execution(p.parity_odd);
    let mut s = Sys::new(p);
    for a in hist {
        s.apply(*a, p);
    }
    s
}

fn hist_str(h: &[RAct]) -> String {
    format!("{:?}", h)
}

pub struct Outcome {
    pub states: u64,
    pub transitions: u64,
    pub closed: bool,
    pub depth: usize,
    pub max_live: usize,
    pub alloc_edges: u64,
    pub alloc_edges_on_cycles: u64,
}

/// BFS over canonical states to fixpoint.
pub fn explore(p: &Params, rep: &mut Report) -> Outcome {
    let t_start = std::time::Instant::now();
    let limit = live_limit(p);
    let mut ids: HashMap<u128, u32> = HashMap::new();
    let mut hists: Vec<Vec<RAct>> = vec![];
    // edges: (from, to, action, allocated byte buffer?)
    let mut edges: Vec<(u32, u32, RAct, bool)> = vec![];
    let mut frontier: Vec<u32> = vec![];
    let mut max_live = 0usize;
    // root
    {
        let s = replay(&[], p);
        let k = hash128(&s.key(p));
        s.teardown();
        let _ = oracle::end_execution();
        ids.insert(k, 0);
        hists.push(vec![]);
        frontier.push(0);
    }
    let mut depth = 0;
    let mut closed = true;
    let mut transitions = 0u64;
    'outer: while !frontier.is_empty() {
        depth += 1;
        let mut next = vec![];
        for &sid in &frontier {
            let hist = hists[sid as usize].clone();
            let s = replay(&hist, p);
            let acts = s.enabled(p);
            s.teardown();
            let _ = oracle::end_execution();
            for a in acts {
                transitions += 1;
                let mut s = replay(&hist, p);
                oracle::sys::set_crash_note(&format!("recycle {} + {:?}", hist_str(&hist), a));
                let was_empty_alone = s.buf.is_empty() && {
                    let my = oracle::find_live(s.buf.as_ptr() as usize);
                    my.is_some() && !s.q.iter().any(|part| (part.len() > 0 || matches!(part, Part::M(_))) && oracle::find_live(part.ptr()) == my) && s.q.iter().all(|part| part.len() > 0 || matches!(part, Part::M(_)))
                };
                let alloc_size = oracle::find_live(s.buf.as_ptr() as usize).map_or(0, |bi| oracle::blocks()[bi].size);
                let qlen_over = s.q.len() > p.k;
                s.apply(a, p);
                let allocated = oracle::events().iter().any(|e| e.is_alloc && e.align == 1);
                let any_event = !oracle::events().is_empty();
                let live = oracle::live_bytes();
                max_live = max_live.max(live);
                let mut h2 = hist.clone();
                h2.push(a);
                if let Some(v) = oracle::take_violation().or_else(oracle::check_canaries) {
                    rep.violate("C02", "memory", &format!("{} | recycle history {}", v, hist_str(&h2)), &format!("{{\"engine\":\"recycle\",\"params\":{:?},\"history\":{:?}}}", p.name, hist_str(&h2)));
                }
                // (3) a reserve on an empty handle that is alone on a large-enough buffer never allocates
                // (only entry points that start with one reserve(n) on the still empty handle: an Extend with lower
                // bound 0 and the chunk_mut loop reserve piecemeal, on a handle that is no longer empty)
                if let RAct::Refill(n) | RAct::RefillVia(n, 1) | RAct::RefillVia(n, 3) | RAct::RefillVia(n, 4) | RAct::RefillVia(n, 6) | RAct::RefillVia(n, 7) | RAct::RefillVia(n, 8) = a {
                    if was_empty_alone && !qlen_over && alloc_size >= n && any_event {
                        rep.violate(
                            "C18",
                            "empty-alone-reserve-allocated",
                            &format!("reserve({}) on an empty handle that is alone on an allocation of {} bytes touched the allocator ({} events) | recycle[{}] history {}", n, alloc_size, oracle::events().len(), p.name, hist_str(&h2)),
                            &format!("{{\"engine\":\"recycle\",\"params\":{:?},\"history\":{:?}}}", p.name, hist_str(&h2)),
                        );
                    }
                }
                if live > limit {
                    rep.violate(
                        "C18",
                        "live-memory-limit",
                        &format!("live heap memory {} bytes exceeds the explicit bound {} (64 x payload+capacities) | recycle[{}] history {}", live, limit, p.name, hist_str(&h2)),
                        &format!("{{\"engine\":\"recycle\",\"params\":{:?},\"history\":{:?}}}", p.name, hist_str(&h2)),
                    );
                    closed = false;
                    s.teardown();
                    let _ = oracle::end_execution();
                    break 'outer;
                }
                let k = hash128(&s.key(p));
                s.teardown();
                let end = oracle::end_execution();
                if !end.leaked.is_empty() || end.corrupt.is_some() {
                    rep.violate("C03", "leak", &format!("ledger after recycle history {}: {:?}", hist_str(&h2), end), "");
                    if !end.leaked.is_empty() {
                        // storage that is never released makes live memory grow with the number of rounds
                        rep.violate(
                            "C18",
                            "storage-never-released",
                            &format!("after dropping every handle {} block(s) {:?} are still allocated: repeating the history leaks memory every round | recycle[{}] history {}", end.leaked.len(), end.leaked, p.name, hist_str(&h2)),
                            &format!("{{\"engine\":\"recycle\",\"params\":{:?},\"history\":{:?}}}", p.name, hist_str(&h2)),
                        );
                        closed = false;
                        break 'outer;
                    }
                }
                let tid = match ids.get(&k) {
                    Some(t) => *t,
                    None => {
                        let t = hists.len() as u32;
                        ids.insert(k, t);
                        hists.push(h2);
                        next.push(t);
                        t
                    }
                };
                edges.push((sid, tid, a, allocated));
                if hists.len() > p.max_states || (hists.len() % 1024 == 0 && t_start.elapsed().as_secs() > p.max_seconds) {
                    closed = false;
                    break 'outer;
                }
            }
        }
        frontier = next;
    }
    // SCC analysis (Tarjan, iterative) : an allocating edge inside a strongly connected component means the
    // number of byte-buffer allocations grows with the number of rounds
    let n = hists.len();
    let mut adj: Vec<Vec<usize>> = vec![vec![]; n];
    for (ei, e) in edges.iter().enumerate() {
        adj[e.0 as usize].push(ei);
    }
    let mut comp = vec![usize::MAX; n];
    {
        let mut index = vec![usize::MAX; n];
        let mut low = vec![0usize; n];
        let mut on = vec![false; n];
        let mut st: Vec<usize> = vec![];
        let mut idx = 0;
        let mut ncomp = 0;
        for root in 0..n {
            if index[root] != usize::MAX {
                continue;
            }
            let mut call: Vec<(usize, usize)> = vec![(root, 0)];
            index[root] = idx;
            low[root] = idx;
            idx += 1;
            st.push(root);
            on[root] = true;
            while let Some(&mut (v, ref mut i)) = call.last_mut() {
                if *i < adj[v].len() {
                    let w = edges[adj[v][*i]].1 as usize;
                    *i += 1;
                    if index[w] == usize::MAX {
                        index[w] = idx;
                        low[w] = idx;
                        idx += 1;
                        st.push(w);
                        on[w] = true;
                        call.push((w, 0));
                    } else if on[w] {
                        low[v] = low[v].min(index[w]);
                    }
                } else {
                    call.pop();
                    if let Some(&(u, _)) = call.last() {
                        low[u] = low[u].min(low[v]);
                    }
                    if low[v] == index[v] {
                        loop {
                            let w = st.pop().unwrap();
                            on[w] = false;
                            comp[w] = ncomp;
                            if w == v {
                                break;
                            }
                        }
                        ncomp += 1;
                    }
                }
            }
        }
    }
    let mut alloc_edges = 0u64;
    let mut on_cycles = 0u64;
    for e in &edges {
        if e.3 {
            alloc_edges += 1;
            let (a, b) = (e.0 as usize, e.1 as usize);
            let cyclic = comp[a] == comp[b] && (a != b || true) && {
                // same SCC: either a self loop or a component with more than one node
                a == b || comp.iter().filter(|&&c| c == comp[a]).count() > 1
            };
            if cyclic && closed && p.k == 0 {
                on_cycles += 1;
                if on_cycles <= 3 {
                    // cycle: path from b back to a inside the component
                    let mut prev: HashMap<usize, (usize, RAct)> = HashMap::new();
                    let mut dq = VecDeque::new();
                    dq.push_back(b);
                    while let Some(x) = dq.pop_front() {
                        if x == a {
                            break;
                        }
                        for &ei in &adj[x] {
                            let y = edges[ei].1 as usize;
                            if comp[y] == comp[a] && !prev.contains_key(&y) && y != b {
                                prev.insert(y, (x, edges[ei].2));
                                dq.push_back(y);
                            }
                        }
                    }
                    let mut cyc = vec![];
                    let mut cur = a;
                    while cur != b {
                        match prev.get(&cur) {
                            Some((px, act)) => {
                                cyc.push(*act);
                                cur = *px;
                            }
                            None => break,
                        }
                    }
                    cyc.reverse();
                    rep.violate(
                        "C18",
                        "allocating-cycle",
                        &format!(
                            "with every part dropped before the next refill the byte-buffer allocation count grows without bound: after the prefix {} the cycle [{:?} ; {}] allocates a byte buffer on every turn | recycle[{}]",
                            hist_str(&hists[a]),
                            e.2,
                            hist_str(&cyc),
                            p.name
                        ),
                        &format!("{{\"engine\":\"recycle\",\"params\":{:?},\"prefix\":{:?},\"cycle_first\":\"{:?}\",\"cycle_rest\":{:?}}}", p.name, hist_str(&hists[a]), e.2, hist_str(&cyc)),
                    );
                }
            }
        }
    }
    Outcome { states: n as u64, transitions, closed, depth, max_live, alloc_edges, alloc_edges_on_cycles: on_cycles }
}

/// Exhaustive enumeration of periodic schedules: every action word of length <= `period`
/// over the alphabet, repeated for 4N rounds; disabled actions are skipped.
pub fn periodic(p: &Params, period: usize, rounds: usize, rep: &mut Report) -> (u64, u64) {
    let limit = live_limit(p);
    let mut alpha: Vec<RAct> = vec![];
    for &n in &p.ns {
        alpha.push(RAct::Refill(n));
    }
    if p.appends {
        for &n in &p.ns {
            for mode in 1..=8u8 {
                alpha.push(RAct::RefillVia(n, mode));
            }
        }
        alpha.extend([RAct::CopyOut(3), RAct::CopyOut(1), RAct::SplitVec(9), RAct::SplitVec(1)]);
        if p.splits {
            alpha.extend([RAct::SplitOffAll(false), RAct::SplitBack]);
        }
    }
    for f in [false, true] {
        alpha.push(RAct::Split(f));
        alpha.push(RAct::SplitTo(1, f));
    }
    alpha.extend([RAct::Advance(1), RAct::Advance(2), RAct::Clear, RAct::Truncate(0), RAct::DropOldest]);
    if p.roundtrip {
        alpha.push(RAct::RoundTrip);
    }
    if p.unsplit {
        alpha.push(RAct::UnsplitInto);
        alpha.push(RAct::SplitOffUnsplit);
        alpha.push(RAct::SwapHead(0));
        alpha.push(RAct::SwapHead(1));
    }
    let mut words: Vec<Vec<RAct>> = vec![];
    let mut level: Vec<Vec<RAct>> = vec![vec![]];
    for _ in 0..period {
        let mut next = vec![];
        for w in &level {
            for &a in &alpha {
                let mut x = w.clone();
                x.push(a);
                next.push(x);
            }
        }
        words.extend(next.iter().filter(|w| w.iter().any(|a| matches!(a, RAct::Refill(_) | RAct::RefillVia(..)))).cloned());
        level = next;
    }
    let mut steps = 0u64;
    let nwords = words.len() as u64;
    for w in &words {
        oracle::begin_execution(p.parity_odd);
        oracle::sys::set_crash_note(&format!("recycle periodic {:?}", w));
        let mut s = Sys::new(p);
        // geometric windows of rounds: [0,R) warm-up, [R,2R), [2R,4R), [4R,8R)
        let window = |r: usize| -> usize {
            if r < rounds {
                0
            } else if r < 2 * rounds {
                1
            } else if r < 4 * rounds {
                2
            } else {
                3
            }
        };
        let mut allocs_in = [0u64; 4];
        let mut peak_in = [0usize; 4];
        let live_at = [0usize; 4];
        let mut broke = false;
        for r in 0..rounds * 8 {
            for &a in w {
                if !s.enabled(p).contains(&a) {
                    continue;
                }
                s.apply(a, p);
                steps += 1;
                if oracle::events().iter().any(|e| e.is_alloc && e.align == 1) {
                    allocs_in[window(r)] += 1;
                }
                let live = oracle::live_bytes();
                if live > peak_in[window(r)] {
                    peak_in[window(r)] = live;
                }
                if live > limit {
                    rep.violate(
                        "C18",
                        "live-memory-limit",
                        &format!("live heap memory reached {} bytes (> bound {}) after {} rounds of the periodic schedule {:?} | recycle[{}]", live, limit, r + 1, w, p.name),
                        &format!("{{\"engine\":\"recycle-periodic\",\"params\":{:?},\"word\":\"{:?}\",\"rounds\":{}}}", p.name, w, r + 1),
                    );
                    broke = true;
                    break;
                }
            }
            if broke {
                break;
            }
            // the oracle allocator keeps freed crate blocks in quarantine until the execution ends;
            // release them now and then so that long runs stay small
            if r % 64 == 63 {
                oracle::flush_quarantine();
            }
        }
        // peak live memory must not grow with the number of rounds: a strictly increasing peak over three
        // windows of doubling length that at least doubles is growth (a bounded system has long reached its cycle)
        if !broke && peak_in[1] < peak_in[2] && peak_in[2] < peak_in[3] && peak_in[3] >= 2 * peak_in[1] {
            rep.violate(
                "C18",
                "live-memory-grows",
                &format!("peak live heap memory keeps growing with the number of rounds: {} / {} / {} bytes in rounds [{r},{r2}) / [{r2},{r4}) / [{r4},{r8}) of the periodic schedule {:?} | recycle[{}]", peak_in[1], peak_in[2], peak_in[3], w, p.name, r = rounds, r2 = 2 * rounds, r4 = 4 * rounds, r8 = 8 * rounds),
                &format!("{{\"engine\":\"recycle-periodic\",\"params\":{:?},\"word\":\"{:?}\",\"rounds\":{}}}", p.name, w, rounds * 8),
            );
        }
        // k = 0 (every part dropped before the next refill): byte-buffer allocations stop after the transient
        if !broke && p.k == 0 && allocs_in[2] > 0 && allocs_in[3] > 0 {
            rep.violate(
                "C18",
                "allocation-count-grows",
                &format!("every part is dropped before the next refill, yet byte-buffer allocations keep happening: {:?} allocations in rounds [0,{r}) / [{r},{r2}) / [{r2},{r4}) / [{r4},{r8}) of the periodic schedule {:?} | recycle[{}]", allocs_in, w, p.name, r = rounds, r2 = 2 * rounds, r4 = 4 * rounds, r8 = 8 * rounds),
                &format!("{{\"engine\":\"recycle-periodic\",\"params\":{:?},\"word\":\"{:?}\",\"rounds\":{}}}", p.name, w, rounds * 8),
            );
        }
        let _ = live_at;
        s.teardown();
        let end = oracle::end_execution();
        if !end.leaked.is_empty() && !broke {
            rep.violate("C03", "leak", &format!("blocks leaked after the periodic schedule {:?}: {} blocks", w, end.leaked.len()), "");
        }
        if let Some(v) = oracle::take_violation() {
            rep.violate("C02", "memory", &format!("{} | periodic schedule {:?}", v, w), "");
        }
    }
    (nwords, steps)
}
