//! hmc: handle model checker (engines A, A', A'' of DESIGN.md).
mod explore;
mod key;
mod recycle;
mod world;

use explore::*;
use world::*;

// Under Miri (secondary oracle, `mirisweep`) the interpreter's own allocator is used: it sees
// out-of-bounds and dangling *reads*, which the oracle allocator cannot.
#[cfg(not(miri))]
#[global_allocator]
static ALLOC: oracle::Oracle = oracle::Oracle;

fn arg(name: &str, default: &str) -> String {
    let a: Vec<String> = std::env::args().collect();
    for i in 0..a.len() {
        if a[i] == name && i + 1 < a.len() {
            return a[i + 1].clone();
        }
    }
    default.to_string()
}
fn flag(name: &str) -> bool {
    std::env::args().any(|a| a == name)
}

fn parse_hist(s: &str) -> Vec<Op> {
    // [["Root",0,0,2,4],["BClone",0,0,0,0],...]
    let mut out = vec![];
    let mut rest = s;
    while let Some(i) = rest.find("[\"") {
        let r = &rest[i + 2..];
        let q = r.find('"').unwrap();
        let name = &r[..q];
        let r2 = &r[q + 1..];
        let end = r2.find(']').unwrap();
        let nums: Vec<usize> = r2[..end].split(',').filter(|x| !x.trim().is_empty()).map(|x| x.trim().parse::<usize>().unwrap()).collect();
        out.push(Op::new(k_from_str(name).expect("unknown op"), nums[0], nums[1], nums[2], nums[3]));
        rest = &r2[end..];
    }
    out
}

fn main() {
    oracle::sys::install_crash_handlers();
    oracle::quiet_panics();
    oracle::run_engine(real_main);
}

fn real_main() {
    let cmd = std::env::args().nth(1).unwrap_or_default();
    let profile = if cfg!(debug_assertions) { "dbg" } else { "rel" };
    let parity = arg("--parity", "even");
    if parity == "adjacent" {
        // third allocator configuration: byte buffers are carved back to back out of one arena
        oracle::set_adjacent(true);
    }
    let t0 = std::time::Instant::now();
    match cmd.as_str() {
        "explore" => {
            let root: Vec<usize> = arg("--root", "2,4").split(',').map(|x| x.parse().unwrap()).collect();
            // one execution is a history of a handful of calls on buffers of a few bytes: 30 s of CPU time inside one means a call
            // does not return (reported like a crash, with the history in the note)
            oracle::sys::arm_hang_watchdog(10, 3);
            explore::RARE_LAST.store(std::env::args().any(|a| a == "--rare-last"), std::sync::atomic::Ordering::Relaxed);
            let shard: Vec<usize> = arg("--shard", "0/1").split('/').map(|x| x.parse().unwrap()).collect();
            let cfg = Cfg {
                root: (root[0], root[1]),
                parity_odd: parity == "odd",
                depth: arg("--depth", "3").parse().unwrap(),
                maxh: arg("--handles", "3").parse().unwrap(),
                max_roots: arg("--roots", "2").parse().unwrap(),
                alphabet: alphabet_named(&arg("--alphabet", "full")),
                ooc: !flag("--no-ooc"),
                huge: !flag("--no-huge"),
                perms: flag("--perms"),
                probes: flag("--probes"),
                oom_probes: flag("--oom-probes"),
                oom_probe_depth: arg("--oom-probe-depth", "2").parse().unwrap(),
                dedup: !flag("--no-dedup"),
                shard: (shard[0], shard[1]),
                max_states: arg("--max-states", "20000000").parse().unwrap(),
                property: arg("--property", "C01"),
            };
            let config = format!("{}/{}/root={}:{}/depth={}/alphabet={}{}", profile, parity, cfg.root.0, cfg.root.1, cfg.depth, arg("--alphabet", "full"), if cfg.dedup { "" } else { "/no-dedup" });
            // warm-up (untracked allocations of the runtime): one tiny exploration before the real one
            {
                let mut c2 = cfg.clone();
                c2.depth = 1;
                c2.perms = false;
                c2.probes = false;
                c2.oom_probes = false;
                let mut e = Explorer::new(c2, "hmc", &config);
                e.run();
            }
            let mut e = Explorer::new(cfg, "hmc", &config);
            e.run();
            let mut rep = e.finish_report();
            if oracle::machinery_error() {
                rep.machinery_error = Some("oracle allocator table overflow".into());
            }
            rep.extra.push(("wall_s".into(), format!("{:.3}", t0.elapsed().as_secs_f64())));
            rep.print();
        }
        "mirisweep" => {
            // every enabled operation (incl. out-of-contract and usize::MAX-class arguments) applied to every
            // history of `depth` operations after the root, no deduplication; model comparison only.
            // Meant to run under `cargo +nightly miri run`, works natively too.
            let root: Vec<usize> = arg("--root", "2,4").split(',').map(|x| x.parse().unwrap()).collect();
            let depth: usize = arg("--depth", "1").parse().unwrap();
            let shard: Vec<usize> = arg("--shard", "0/1").split('/').map(|x| x.parse().unwrap()).collect();
            let cfg = Cfg { root: (root[0], root[1]), parity_odd: false, depth, maxh: 3, max_roots: 2, alphabet: alphabet_named("full"), ooc: true, huge: true, perms: false, probes: false, oom_probes: false, oom_probe_depth: 0, dedup: false, shard: (0, 1), max_states: 0, property: "C02".into() };
            let mut frontier: Vec<Vec<Op>> = vec![vec![Op::new(K::Root, 0, 0, root[0], root[1])]];
            let mut execs = 0u64;
            let mut mism = 0u64;
            let mut idx = 0usize;
            for d in 0..=depth {
                let mut next = vec![];
                for hist in &frontier {
                    let mut w = World::new();
                    w.check = false;
                    for op in hist {
                        w.step(*op);
                    }
                    let acts = enabled(&w, &cfg);
                    let live: Vec<usize> = (0..MAXH).filter(|&i| w.slots[i].is_some()).collect();
                    w.drop_all(&live);
                    for a in acts {
                        // operations whose model is reconciled with the help of the allocator ledger (what a misbehaving user
                        // type left behind): without the ledger - under the interpreter - their model cannot be kept
                        if matches!(a.k, K::MExtendPanic | K::MPutUnder | K::MExtendLie) {
                            continue;
                        }
                        idx += 1;
                        let mut h2 = hist.clone();
                        h2.push(a);
                        if d < depth {
                            next.push(h2.clone());
                        }
                        if idx % shard[1] != shard[0] {
                            continue;
                        }
                        execs += 1;
                        let mut w = World::new();
                        w.check = false;
                        for op in &h2 {
                            w.step(*op);
                        }
                        for sl in w.slots.iter().flatten() {
                            if sl.h.bytes() != &sl.model[..] {
                                mism += 1;
                                println!("MISMATCH {}", hist_json(&h2));
                            }
                        }
                        let live: Vec<usize> = (0..MAXH).filter(|&i| w.slots[i].is_some()).collect();
                        w.drop_all(&live);
                    }
                }
                frontier = next;
            }
            println!("MIRISWEEP root={} depth={} executions={} mismatches={}", root_name(root[0]), depth, execs, mism);
        }
        "digest" => {
            let root: Vec<usize> = arg("--root", "2,4").split(',').map(|x| x.parse().unwrap()).collect();
            let cfg = Cfg { root: (root[0], root[1]), parity_odd: parity == "odd", depth: arg("--depth", "2").parse().unwrap(), maxh: 3, max_roots: 2, alphabet: alphabet_named("full"), ooc: true, huge: true, perms: false, probes: false, oom_probes: false, oom_probe_depth: 0, dedup: false, shard: (0, 1), max_states: 0, property: "C16".into() };
            let dump: Option<usize> = std::env::args().position(|a| a == "--dump-bucket").map(|i| std::env::args().nth(i + 1).unwrap().parse().unwrap());
            // warm-up
            {
                let mut c2 = cfg.clone();
                c2.depth = 1;
                let _ = explore::digest(&c2, Some(0));
            }
            let (buckets, lines, total) = explore::digest(&cfg, dump);
            let features = if cfg!(feature = "extra-platforms") { "extra" } else if cfg!(feature = "std") { "std" } else { "nostd" };
            let mut rep = oracle::report::Report::new("digest", "C16", &format!("{}/{}/{}/root={}:{}", profile, parity, features, root[0], root[1]));
            rep.evaluations = total;
            rep.states = total;
            rep.transitions = total;
            rep.traces = total;
            rep.distinct_nontrivial = buckets.len() as u64;
            rep.extra.push(("buckets".into(), format!("{{{}}}", buckets.iter().map(|(b, h, n)| format!("\"{}\":[\"{:032x}\",{}]", if *b == usize::MAX { "root".to_string() } else { b.to_string() }, h, n)).collect::<Vec<_>>().join(","))));
            rep.sample(format!("root {} depth {}: {} histories in {} buckets", root_name(root[0]), cfg.depth, total, buckets.len()));
            for l in lines {
                println!("DUMP {}", l);
            }
            rep.extra.push(("wall_s".into(), format!("{:.3}", t0.elapsed().as_secs_f64())));
            rep.print();
        }
        "recycle" => {
            // hmc recycle --set small|t1k|t2k|t64k --k 0 [--roundtrip] [--unsplit] [--periodic 3]
            let set = arg("--set", "small");
            let k: usize = arg("--k", "0").parse().unwrap();
            let base = |name: &str, init_cap: usize, ns: Vec<usize>| recycle::Params {
                quantum: if init_cap >= 1024 { 100 } else { 1 },
                name: format!("{}:cap{}:k{}{}{}", name, init_cap, k, if flag("--roundtrip") { ":roundtrip" } else { "" }, if flag("--unsplit") { ":unsplit" } else { "" }) + if flag("--appends") { ":appends" } else { "" },
                init_cap,
                max_leftover: *ns.iter().max().unwrap(),
                ns,
                k,
                roundtrip: flag("--roundtrip"),
                unsplit: flag("--unsplit"),
                appends: flag("--appends"),
                splits: flag("--splits"),
                parity_odd: parity == "odd",
                max_states: arg("--max-states", "1000000").parse().unwrap(),
                max_seconds: arg("--max-seconds", "45").parse().unwrap(),
            };
            let params: Vec<recycle::Params> = match set.as_str() {
                "small" => [0usize, 8, 16].iter().filter(|&&c| arg("--cap", "all") == "all" || arg("--cap", "all") == c.to_string()).map(|&c| base("small", c, vec![1, 3, 7])).collect(),
                "t1k" => vec![base("t1k", 1024, vec![100, 1000, 5000])],
                "t2k" => vec![base("t2k", 2048, vec![100, 1000, 5000])],
                _ => vec![base("t64k", 65536, vec![100, 1000, 5000])],
            };
            let mut rep = oracle::report::Report::new("recycle", "C18", &format!("{}/{}/{}/k={}", profile, parity, set, k));
            let period: usize = arg("--periodic", "0").parse().unwrap();
            let mut words_total = 0u64;
            for p in &params {
                // warm-up
                {
                    let mut w = p.clone();
                    w.max_states = 30;
                    let mut r = oracle::report::Report::new("recycle", "C18", "warmup");
                    let _ = recycle::explore(&w, &mut r);
                }
                if flag("--periodic-only") {
                    let (words, steps) = recycle::periodic(p, period, arg("--rounds", "100").parse().unwrap(), &mut rep);
                    words_total += words;
                    rep.evaluations += steps;
                    rep.traces += words;
                    rep.states += words;
                    rep.transitions += steps;
                    rep.distinct_nontrivial += words;
                    rep.sample(format!("{}: {} periodic schedules of period <= {} x {} rounds, {} steps", p.name, words, period, 8 * arg("--rounds", "100").parse::<usize>().unwrap(), steps));
                    continue;
                }
                let o = recycle::explore(p, &mut rep);
                rep.states += o.states;
                rep.transitions += o.transitions;
                rep.traces += o.transitions;
                rep.evaluations += o.transitions;
                rep.distinct_nontrivial += o.states;
                if !o.closed {
                    rep.exhaustive = false;
                    rep.caps.push(format!("{}: state graph not closed within {} states / {} s (BFS depth {})", p.name, p.max_states, p.max_seconds, o.depth));
                }
                rep.sample(format!("{}: {} states, {} transitions, closed={} at BFS depth {}, max live bytes {}, allocating edges {} (on cycles: {})", p.name, o.states, o.transitions, o.closed, o.depth, o.max_live, o.alloc_edges, o.alloc_edges_on_cycles));
                if period > 0 {
                    let (words, steps) = recycle::periodic(p, period, arg("--rounds", "100").parse().unwrap(), &mut rep);
                    words_total += words;
                    rep.evaluations += steps;
                    rep.traces += words;
                }
            }
            rep.extra_num("periodic_schedules", words_total);
            if oracle::machinery_error() {
                rep.machinery_error = Some("oracle allocator table overflow".into());
            }
            rep.extra.push(("wall_s".into(), format!("{:.3}", t0.elapsed().as_secs_f64())));
            rep.print();
        }
        "replay" => {
            // hmc replay '<history json>' [--parity odd] [--drop-order 2,0,1]
            let hist = parse_hist(&std::env::args().nth(2).unwrap_or_default());
            let cfg = Cfg { root: (0, 0), parity_odd: parity == "odd", depth: 0, maxh: 4, max_roots: 2, alphabet: !0, ooc: true, huge: true, perms: false, probes: false, oom_probes: false, oom_probe_depth: 0, dedup: true, shard: (0, 1), max_states: 0, property: "".into() };
            oracle::begin_execution(cfg.parity_odd);
            oracle::register_region(STATIC4.as_ptr() as usize, STATIC4.len(), REGION_STATIC);
            let mut w = World::new();
            let mut n = 0;
            for op in &hist {
                oracle::sys::set_crash_note(&format!("replaying {:?}", op));
                w.step(*op);
                w.check_state();
                println!("step {:?}: panicked={} ret={} slots={:?}", op, w.last.panicked, w.last.ret, w.slots.iter().map(|s| s.as_ref().map(|s| (if s.h.is_b() { 'B' } else { 'M' }, s.h.len(), s.h.cap(), s.h.bytes().to_vec()))).collect::<Vec<_>>());
                for v in w.vios.drain(..) {
                    println!("  VIOLATION-DETAIL property={} case={} {}", v.property, v.case, v.msg);
                    n += 1;
                }
            }
            let order: Vec<usize> = match arg("--drop-order", "").as_str() {
                "" => (0..MAXH).collect(),
                s => s.split(',').map(|x| x.trim().parse().unwrap()).collect(),
            };
            w.drop_all(&order);
            for v in finish(&mut w) {
                println!("  VIOLATION-DETAIL property={} case={} {}", v.property, v.case, v.msg);
                n += 1;
            }
            println!("replay finished: {} violation(s)", n);
            std::process::exit(if n > 0 { 1 } else { 0 });
        }
        _ => {
            eprintln!("usage: hmc explore|replay ...");
            std::process::exit(2);
        }
    }
}
