fn main(){}
