//! Canonical key of a concrete state (DESIGN.md §2.2): the full representation state of
//! every handle modulo renaming of addresses and permutation of slots. Byte values are not
//! part of the key (data independence); lengths, capacities, offsets, reference counts,
//! control-block identities, allocation sizes, lineage and owner counters are.
use crate::world::{owners, World, H, MAXH};
use bytes::verif::Repr;

#[derive(Clone, Copy, PartialEq, Eq, PartialOrd, Ord, Debug)]
enum Loc {
    None,
    Dangling,
    Region(u32, usize),
    /// raw block index (renamed later), offset, block size, block align
    Block(usize, usize, usize, usize),
}

fn loc(addr: usize) -> Loc {
    if addr == 0 {
        return Loc::None;
    }
    if let Some(bi) = oracle::find_live(addr) {
        let b = oracle::blocks()[bi];
        return Loc::Block(bi, addr - b.user, b.size, b.align);
    }
    if let Some(r) = oracle::find_region(addr) {
        return Loc::Region(r.id, addr - r.base);
    }
    Loc::Dangling
}

struct Desc {
    slot: usize,
    is_b: bool,
    repr: Repr,
    ptr: Loc,
    ctrl: Loc,
    buf: Loc,
    fam: u32,
    unique: bool,
}

fn proj(l: &Loc) -> (u8, usize, usize, usize) {
    match l {
        Loc::None => (0, 0, 0, 0),
        Loc::Dangling => (1, 0, 0, 0),
        Loc::Region(id, off) => (2, *id as usize, *off, 0),
        Loc::Block(_, off, size, align) => (3, *off, *size, *align),
    }
}

pub fn key(w: &World) -> Vec<u8> {
    let mut ds: Vec<Desc> = vec![];
    for i in 0..MAXH {
        if let Some(sl) = &w.slots[i] {
            let (repr, unique) = match &sl.h {
                H::B(b) => (b.verif_repr(), b.is_unique()),
                H::M(m) => (m.verif_repr(), false),
            };
            // an empty Bytes with no storage: its pointer value cannot influence behaviour except
            // through split_off/split_to address results, which are relative; keep its location class
            ds.push(Desc { slot: i, is_b: sl.h.is_b(), repr, ptr: loc(repr.ptr), ctrl: loc(repr.ctrl), buf: loc(repr.buf), fam: sl.fam, unique });
        }
    }
    // order slots by an address-free projection
    ds.sort_by_key(|d| {
        (
            (d.is_b, d.repr.kind, d.repr.promoted, d.repr.len, d.repr.cap),
            (proj(&d.ptr), proj(&d.ctrl), proj(&d.buf)),
            (d.repr.ref_cnt, d.repr.buf_cap, d.repr.buf_len, d.repr.vec_pos, d.repr.orig_cap_repr),
            (d.fam.count_ones(), d.slot),
        )
    });
    // canonical block names by first appearance
    let mut names: Vec<usize> = vec![];
    let mut name = |l: &Loc, names: &mut Vec<usize>| -> usize {
        if let Loc::Block(bi, ..) = l {
            if let Some(p) = names.iter().position(|x| x == bi) {
                p
            } else {
                names.push(*bi);
                names.len() - 1
            }
        } else {
            usize::MAX
        }
    };
    // canonical family names by first appearance
    let mut fam_names: Vec<u32> = vec![];
    let mut out: Vec<u8> = Vec::with_capacity(256);
    let push = |out: &mut Vec<u8>, v: usize| out.extend_from_slice(&(v as u64).to_le_bytes());
    out.push(w.roots_used as u8);
    for d in &ds {
        out.push(if d.is_b { 1 } else { 2 });
        out.push(d.repr.kind);
        out.push(d.repr.promoted as u8);
        out.push(d.unique as u8);
        push(&mut out, d.repr.len);
        push(&mut out, d.repr.cap);
        for l in [&d.ptr, &d.ctrl, &d.buf] {
            let p = proj(l);
            out.push(p.0);
            push(&mut out, p.1);
            push(&mut out, p.2);
            push(&mut out, p.3);
            let n = name(l, &mut names);
            push(&mut out, n);
        }
        push(&mut out, d.repr.ref_cnt);
        push(&mut out, d.repr.buf_cap);
        push(&mut out, d.repr.buf_len);
        push(&mut out, d.repr.vec_pos);
        push(&mut out, d.repr.orig_cap_repr);
        // for a tagged inline data word keep the non-address bits
        if d.repr.ctrl == 0 && d.repr.buf == 0 {
            push(&mut out, d.repr.data & 0x1f);
        }
        let mut f = 0u32;
        for bit in 0..32 {
            if d.fam & (1 << bit) != 0 {
                let p = if let Some(p) = fam_names.iter().position(|x| *x == bit) {
                    p
                } else {
                    fam_names.push(bit);
                    fam_names.len() - 1
                };
                f |= 1 << p;
            }
        }
        push(&mut out, f as usize);
    }
    // live crate allocations not referenced by any handle (leaked or pinned blocks), as a multiset
    let mut rest: Vec<(usize, usize)> = oracle::blocks().iter().enumerate().filter(|(i, b)| b.live && !names.contains(i)).map(|(_, b)| (b.size, b.align)).collect();
    rest.sort();
    out.push(0xff);
    for (s, a) in rest {
        push(&mut out, s);
        push(&mut out, a);
    }
    out.push(0xfe);
    for o in owners().iter() {
        if o.created {
            out.push(o.as_ref_calls as u8);
            out.push(o.drops as u8);
        }
    }
    out
}

/// Coverage classification of a handle (which representation), for evidence.
pub fn repr_class(w: &World) -> Vec<String> {
    let mut v = vec![];
    for sl in w.slots.iter().flatten() {
        let (r, t) = match &sl.h {
            H::B(b) => (b.verif_repr(), "B"),
            H::M(m) => (m.verif_repr(), "M"),
        };
        let off = match loc(r.ptr) {
            Loc::Block(_, off, ..) => (off > 0) as u8,
            _ => 0,
        };
        v.push(format!("{}k{}{}o{}", t, r.kind, if r.promoted { "p" } else { "" }, off));
    }
    v
}
