"""Compile-time probes (stage of the C02 check): safe programs that would reach freed or foreign memory if a signature
of the crate lost a bound, a lifetime or an `unsafe`. Each `no_*` binary of /verif/sigprobe must be rejected by the compiler
with one of the error codes listed in its `// expect:` line; `ok_control` must compile. The enumerations of engines A/B take
the crate's *types* for granted (they only ever build well-typed programs): this stage is what keeps that assumption honest.
It is not a model-checking result and is reported as an auxiliary stage."""
import os
import re
import subprocess
import time


def run(vc, pid):
    root = os.path.join(os.path.dirname(os.path.dirname(os.path.abspath(__file__))), "sigprobe")
    bins = sorted(f[:-3] for f in os.listdir(os.path.join(root, "src", "bin")) if f.endswith(".rs"))
    env = vc.base_env()
    env.pop("RUSTFLAGS", None)
    env["CARGO_TARGET_DIR"] = os.path.join(vc.TARGETS, "sigprobe")
    t0 = time.time()
    viols, errors, rejected = [], [], 0
    # the control first: if it does not build, nothing below is a verdict
    order = ["ok_control"] + [b for b in bins if b != "ok_control"]
    for b in order:
        cmd = ["cargo", "check", "--offline", "-q", "--bin", b]
        if vc.REPO != "/repo":
            cmd += ["--config", 'paths=["%s"]' % vc.REPO]
        p = subprocess.run(cmd, cwd=root, env=env, stdout=subprocess.PIPE, stderr=subprocess.PIPE, text=True, errors="replace")
        codes = sorted(set(re.findall(r"error\[(E\d+)\]", p.stderr)))
        if b == "ok_control":
            if p.returncode != 0:
                errors.append("sigprobe control program does not compile (set-up problem, no verdict): %s" % p.stderr[-800:])
                break
            continue
        src = open(os.path.join(root, "src", "bin", b + ".rs")).read()
        m = re.search(r"// expect:\s*(.*)", src)
        want = m.group(1).split() if m else []
        if p.returncode == 0:
            viols.append({"property": pid, "case": "signature:%s" % b,
                          "msg": "the safe program sigprobe/src/bin/%s.rs is accepted by the compiler (it must be rejected with one of %s): %s" % (
                              b, "/".join(want), (src.splitlines()[1] if len(src.splitlines()) > 1 and src.splitlines()[1].startswith("//") else "").lstrip("/ ")),
                          "replay": {"worker": "sigprobe " + b, "cmd": "cd /verif/sigprobe && cargo check --offline --bin " + b}})
        elif not codes:
            errors.append("sigprobe %s: cargo failed without a compiler error code: %s" % (b, p.stderr[-500:]))
        elif not (set(codes) & set(want)):
            # rejected, but for another reason than the one the probe is about (e.g. an API was renamed): the probe no longer
            # tests anything - a machinery problem, not a verdict
            errors.append("sigprobe %s: rejected with %s, expected one of %s (the probe no longer tests its point)" % (b, codes, want))
        else:
            rejected += 1
    res = {"engine": "sigprobe", "property": pid, "config": "compile-time probes", "evaluations": len(order), "distinct_nontrivial": rejected,
           "states": len(order), "transitions": len(order), "traces": len(order), "programs": len(order), "exhaustive": True, "caps": [],
           "samples": ["%d ill-typed safe programs rejected by the compiler, control accepted" % rejected], "violations": viols,
           "extra": {"probes": len(order) - 1, "rejected_as_expected": rejected}, "machinery_error": None,
           "_worker": "sigprobe (%d programs)" % len(order), "_wall": time.time() - t0}
    return [res], errors
