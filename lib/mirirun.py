"""Secondary oracle for C02 (thorough tier): the engine-A operation sweep executed under Miri, which also
sees out-of-bounds / dangling READS and invalid frees that leave no trace in an observable value."""
import os
import re
import subprocess
import time
from concurrent.futures import ThreadPoolExecutor

HARNESS = os.path.join(os.path.dirname(os.path.dirname(os.path.abspath(__file__))), "harness")


def run(vc, pid, jobs):
    """jobs: list of (root, depth, shard_i, shard_n)"""
    env = vc.base_env()
    env["RUSTFLAGS"] = vc.GUARD
    env["MIRIFLAGS"] = "-Zmiri-disable-isolation"
    env["CARGO_TARGET_DIR"] = os.path.join(vc.TARGETS, "miri")
    base = ["cargo", "+nightly", "miri", "run", "--offline", "-q", "-p", "hmc"]
    if vc.REPO != "/repo":
        base += ["--config", 'paths=["%s"]' % vc.REPO]
    t0 = time.time()
    # build once (a depth-0 sweep of the smallest root)
    p = subprocess.run(base + ["--", "mirisweep", "--root", "0,0", "--depth", "0"], cwd=HARNESS, env=env, stdout=subprocess.PIPE, stderr=subprocess.STDOUT, text=True, errors="replace")
    if "MIRISWEEP" not in p.stdout:
        return [], ["miri stage could not be built/run: %s" % p.stdout[-1500:]]
    vc.log("miri stage ready in %.1fs" % (time.time() - t0))

    def one(job):
        root, depth, i, n = job
        t = time.time()
        pr = subprocess.run(base + ["--", "mirisweep", "--root", root, "--depth", str(depth), "--shard", "%d/%d" % (i, n)], cwd=HARNESS, env=env,
                            stdout=subprocess.PIPE, stderr=subprocess.STDOUT, text=True, errors="replace")
        return job, pr.stdout, pr.returncode, time.time() - t

    results, errors = [], []
    with ThreadPoolExecutor(max_workers=vc.NCPU) as ex:
        for job, out, rc, dt in ex.map(one, jobs):
            root, depth, i, n = job
            tag = "miri mirisweep root=%s depth=%d shard=%d/%d" % (root, depth, i, n)
            m = re.search(r"MIRISWEEP .* executions=(\d+) mismatches=(\d+)", out)
            viols = []
            ub = re.search(r"error: (Undefined Behavior|memory leaked|unsupported operation|abnormal termination)[^\n]*", out)
            if ub:
                ctx = out[ub.start():ub.start() + 1200].replace("\n", " ")
                viols.append(dict(property=pid, case="miri:" + ub.group(0)[:120], msg="Miri: %s" % ctx[:900], replay={"engine": "miri", "cmd": tag}))
            elif m and int(m.group(2)) > 0:
                mm = [l for l in out.splitlines() if l.startswith("MISMATCH")][:1]
                viols.append(dict(property=pid, case="miri:mismatch", msg="model mismatch under Miri: %s" % (mm or [""])[0], replay={"engine": "miri", "cmd": tag}))
            elif not m:
                errors.append("miri worker produced no result (rc=%s): %s %s" % (rc, tag, out[-600:]))
                continue
            n_exec = int(m.group(1)) if m else 0
            results.append(dict(engine="miri", property=pid, config=tag, evaluations=n_exec, distinct_nontrivial=0, states=n_exec, transitions=n_exec, traces=n_exec, programs=0,
                                exhaustive=True, caps=[], samples=[], violations=viols, extra={"miri_executions": n_exec}, machinery_error=None, _worker=tag, _wall=dt))
    return results, errors
