"""C16: configuration diff of the no-dedup history enumeration (DESIGN.md §3 C16)."""
import json
import subprocess
from concurrent.futures import ThreadPoolExecutor

ROOTS = ["0,0", "1,4", "2,4", "2,1", "3,4", "3,1", "4,4", "5,4", "6,4", "7,0", "8,0", "9,4", "9,1", "10,4", "10,1", "11,4", "12,4", "13,4", "14,4", "15,126", "16,127", "17,4", "18,4", "11,1024", "19,4", "20,4", "21,4", "22,1024", "23,4"]
CONFIGS = [(f, p, par) for f in ("std", "nostd", "extra") for p in ("rel", "dbg") for par in ("even", "odd")]


def run(vc, pid, tier):
    depth = {"quick": 2, "thorough": 3}.get(tier, 2)
    deep_roots = {"quick": [], "thorough": []}.get(tier, [])
    exes = {}
    for f, p, par in CONFIGS:
        exes[(f, p)] = vc.build("hmc", f, p)
    jobs = []
    for r in ROOTS:
        for f, p, par in CONFIGS:
            jobs.append((r, f, p, par, depth + (1 if r in deep_roots else 0)))

    def one(job):
        r, f, p, par, d = job
        pr = subprocess.run([exes[(f, p)], "digest", "--root", r, "--depth", str(d), "--parity", par], stdout=subprocess.PIPE, stderr=subprocess.PIPE, text=True, errors="replace")
        res = None
        for line in pr.stdout.splitlines():
            if line.startswith("RESULT "):
                res = json.loads(line[7:])
        return job, res, pr.returncode, pr.stderr[-1500:]

    results, errors, table = [], [], {}
    with ThreadPoolExecutor(max_workers=vc.NCPU) as ex:
        for job, res, rc, err in ex.map(one, jobs):
            r, f, p, par, d = job
            tag = "hmc digest root=%s %s/%s/%s depth=%d" % (r, f, p, par, d)
            if res is None:
                if "CRASH signal=" in err:
                    note = [l for l in err.splitlines() if l.startswith("CRASH")][:1]
                    results.append(dict(engine="digest", property=pid, config=tag, evaluations=0, distinct_nontrivial=0, states=0, transitions=0, traces=0, programs=0, exhaustive=False,
                                        caps=[], samples=[], extra={}, machinery_error=None, _worker=tag,
                                        violations=[dict(property=pid, case="crash:%s/%s/%s" % (f, p, par), msg="process crashed in configuration %s/%s/%s only: %s" % (f, p, par, (note or [""])[0]), replay={"worker": tag})]))
                else:
                    errors.append("digest worker failed rc=%s: %s\n%s" % (rc, tag, err))
                continue
            res["_worker"] = tag
            res["violations"] = []
            table[(r, f, p, par)] = res["extra"]["buckets"]
            res["extra"] = {"histories": res["evaluations"]}
            results.append(res)
    # compare every configuration with the reference configuration
    ref = ("std", "rel", "even")
    viols = []
    for r in ROOTS:
        base = table.get((r,) + ref)
        if base is None:
            continue
        for f, p, par in CONFIGS:
            other = table.get((r, f, p, par))
            if other is None or (f, p, par) == ref:
                continue
            diff = [b for b in base if b != "root" and (b not in other or other[b] != base[b])]
            if base.get("root") != other.get("root"):
                diff = ["root"] + diff
            if not diff:
                continue
            b = diff[0]
            # locate the first differing history by dumping the bucket in both configurations
            detail = "bucket %s differs" % b
            hist = None
            if b != "root":
                d = depth
                def dump(cfg):
                    pr = subprocess.run([exes[(cfg[0], cfg[1])], "digest", "--root", r, "--depth", str(d), "--parity", cfg[2], "--dump-bucket", b], stdout=subprocess.PIPE, stderr=subprocess.PIPE, text=True, errors="replace")
                    return [l[5:] for l in pr.stdout.splitlines() if l.startswith("DUMP ")]
                la, lb = dump(ref), dump((f, p, par))
                for x, y in zip(la, lb):
                    if x != y:
                        hx, rx = x.split("\t", 1)
                        hy, ry = y.split("\t", 1)
                        hist = hx
                        detail = "history %s: %s/%s/%s observes %s but %s/%s/%s observes %s" % (hx, ref[0], ref[1], ref[2], rx, f, p, par, ry) if hx == hy else \
                                 "enumeration diverges: %s vs %s" % (x[:300], y[:300])
                        break
                else:
                    if len(la) != len(lb):
                        detail = "bucket %s has %d histories in the reference configuration and %d in %s/%s/%s" % (b, len(la), len(lb), f, p, par)
            dims = [n for n, a, c in (("features", ref[0], f), ("profile", ref[1], p), ("parity", ref[2], par)) if a != c]
            viols.append(dict(property=pid, case="config-diff:%s" % "+".join(dims), msg="results depend on %s: %s" % (" and ".join(dims), detail),
                              replay={"engine": "hmc", "root": r, "history": hist, "reference": list(ref), "config": [f, p, par]}))
    # ---- second stage: the Buf / BufMut engines (adapters, getters, putters) in both profiles. Each run compares the
    # crate with a profile-independent reference model, so a case that fails in one profile only is a result
    # that depends on the profile.
    stage2 = [("c09", "mini", 8), ("c11", "quick", 8), ("c12w", "quick", 2), ("c10", "quick", 8)] if tier != "thorough" else \
             [("c09", "quick", 16), ("c11", "quick", 16), ("c12r", "quick", 16), ("c12w", "quick", 4), ("c10", "quick", 16)]
    bex = {p: vc.build("bufmc", "std", p) for p in ("rel", "dbg")}
    jobs2 = [(e, t, i, n, p) for (e, t, n) in stage2 for p in ("rel", "dbg") for i in range(n)]

    def one2(job):
        e, t, i, n, p = job
        pr = subprocess.run([bex[p], e, "--tier", t, "--parity", "even", "--shard", str(i), "--nshards", str(n)], stdout=subprocess.PIPE, stderr=subprocess.PIPE, text=True, errors="replace")
        res = None
        for line in pr.stdout.splitlines():
            if line.startswith("RESULT "):
                res = json.loads(line[7:])
        return job, res, pr.returncode, pr.stderr[-1500:]

    seen = {}
    with ThreadPoolExecutor(max_workers=vc.NCPU) as ex:
        for job, res, rc, err in ex.map(one2, jobs2):
            e, t, i, n, p = job
            tag = "bufmc %s --tier %s --shard %d/%d [%s]" % (e, t, i, n, p)
            if res is None:
                if "CRASH signal=" in err:
                    note = [l for l in err.splitlines() if l.startswith("CRASH")][:1]
                    seen.setdefault((e, i), {}).setdefault(p, {})["crash"] = (note or ["crash"])[0]
                else:
                    errors.append("cross-profile worker failed rc=%s: %s\n%s" % (rc, tag, err))
                continue
            for v in res.get("violations", []):
                seen.setdefault((e, i), {}).setdefault(p, {})[v["case"]] = v["msg"]
            res["_worker"] = tag
            res["violations"] = []
            res["property"] = pid
            res["extra"] = {"stage": "cross-profile " + e}
            results.append(res)
    for (e, i), byprof in sorted(seen.items()):
        a, b = byprof.get("rel", {}), byprof.get("dbg", {})
        for case in sorted(set(a) ^ set(b)):
            where, msg = ("release", a[case]) if case in a else ("debug-assertions", b[case])
            viols.append(dict(property=pid, case="profile-diff:%s:%s" % (e, case), msg="results depend on the build profile: only the %s build shows: %s" % (where, msg[:500]),
                              replay={"worker": "bufmc %s --tier %s --parity even --shard %d --nshards %d" % (e, dict((x[0], x[1]) for x in stage2)[e], i, dict((x[0], x[2]) for x in stage2)[e])}))
    if viols:
        # attach to the first result so that merge() sees them
        if not results:
            results.append(dict(engine="digest", property=pid, config="", evaluations=0, distinct_nontrivial=0, states=0, transitions=0, traces=0, programs=0, exhaustive=False, caps=[], samples=[], extra={}, machinery_error=None, violations=[]))
        results[0]["violations"] = viols
    return results, errors
