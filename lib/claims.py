"""Texts for MANIFEST.json, one entry per claimed property."""
ENGINES = [
    {"name": "cursor", "path": "harness/bufmc/src/cursor.rs", "serves_properties": ["C09", "C12"],
     "kind_free_text": "explicit-state exploration (trees x op sequences, replayed from scratch) of the crate's Buf implementations against a flat and a structural model, under the oracle allocator"},
    {"name": "sink", "path": "harness/bufmc/src/sink.rs", "serves_properties": ["C11", "C12"],
     "kind_free_text": "explicit-state exploration (target trees x write sequences) of the crate's BufMut implementations against an append model with guard bytes"},
    {"name": "typed", "path": "harness/bufmc/src/typed.rs", "serves_properties": ["C10"],
     "kind_free_text": "exhaustive table of getter x shape x position x pattern x shortfall"},
    {"name": "table", "path": "harness/bufmc/src/table.rs", "serves_properties": ["C14", "C15"],
     "kind_free_text": "exhaustive enumeration of a complete finite input universe x every impl x every representation, on the real crate under the oracle allocator"},
]
NOTES = "All checks: ./vcheck <ID> quick|thorough (python3 driver, rebuilds harness against /repo's working tree with the guard on). See DESIGN.md."
NOT_YET = {}
CLAIMS = {
    "C09": dict(engine="cursor", design_ref="DESIGN.md §3 C09",
        technique="explicit-state exploration of the real crate: all adapter trees x fragmentations x cursor-operation sequences up to a depth bound, checked against a flat Vec<u8> model at every state",
        text="Every Buf the crate provides, in every nesting up to the bound and with every way of cutting the payload into chunks (incl. empty leaves and lawful user multi-chunk buffers), is driven through every sequence of consuming operations up to the depth bound; at every state remaining/chunk/chunks_vectored and every result are compared with the flat model. Exhaustive within the stated bounds.",
        note="Bounds: payload <= 4 (6 thorough), <= 2 (3) leaves, <= 2 (3) unary adapters, op depth 2 (3). Trusts the flat model and the harness's lawful Frag buffers."),
    "C10": dict(engine="typed", design_ref="DESIGN.md §3 C10",
        technique="exhaustive table: every getter x every chunk-boundary position / shape / wrapper x pre-consumed bytes x shortfalls x sign/order-pinning byte patterns, on the real code vs an independent decoder",
        text="All 76+ get/try_get methods are executed on every buffer shape of the table (1, 2, 3+ chunks with boundaries at every position, every leaf type, forwarding wrappers), for every shortfall and a byte-pattern set that pins byte order and sign; results, errors, panics and the cursor position are compared with an independent decoder. Complete for 1-byte and 16-bit values.",
        note="Wider types use 25 msb/lsb edge patterns with position-coded middle bytes rather than all values; decoding code is value-independent apart from sign and order."),
    "C11": dict(engine="sink", design_ref="DESIGN.md §3 C11",
        technique="explicit-state exploration of the real crate: all BufMut target trees x sizes x fill levels x write sequences (complete put table + sized writes) against an append model with guarded arenas",
        text="Every BufMut the crate provides, nested and sized so that writes fit exactly, straddle a chunk end at every offset, trigger growth or do not fit, receives every put method with sign/order-pinning values and every sequence of sized writes up to depth 3; contents, remaining_mut, chunk_mut, does-not-fit panics, guard bytes and read-back are checked after every write. Exhaustive within the stated bounds.",
        note="Bounds: targets <= 20 bytes fixed, chains of <= 3 parts, depth 3. Trusts the harness encoder and the arena/canary guards."),
    "C12": dict(engine="cursor+sink", design_ref="DESIGN.md §3 C12",
        technique="explicit-state exploration of adapter trees with Reader roots and set_limit actions, structural model compared by recursion over the typed tree (limit(), get_ref(), first_ref/last_ref, inner positions)",
        text="Take/Chain/Reader nestings are driven through every operation sequence up to the bound incl. set_limit in mid-stream and io::Read/BufRead calls with every dst size; after each step every adapter's limit and every inner buffer's position must equal the structural model. Exhaustive within the bounds of C09.",
        note="Bounds as C09 (read side) and C11 (write side: Limit, Writer, chain_mut)."),
    "C14": dict(engine="table", design_ref="DESIGN.md §3 C14",
        technique="exhaustive enumeration of a complete finite universe (all pairs of byte strings <=3 over 4 symbols x all representations x all comparison impls in both operand orders) on the real code",
        text="Every comparison/hash impl of the crate is executed on every ordered pair of a complete small universe of byte strings in every backing representation and compared with slice semantics; a violation is an operand-order or representation dependence of any impl. Exhaustive within the universe; comparison code does not branch on byte values beyond their order, so 4 symbols incl. 00 and ff plus prefix pairs cover the decision structure.",
        note="Trusts std slice comparison/hashing as reference; strings > 8 bytes not enumerated."),
    "C15": dict(engine="table", design_ref="DESIGN.md §3 C15",
        technique="exhaustive enumeration of all 1-byte strings, byte pairs and short escape-alphabet strings on the real code, against an independent literal parser and serde_test token streams",
        text="Debug output of every byte string of the universe is parsed back by an independent byte-string-literal parser and must decode to the contents; hex output compared digit by digit; serde round trips through every entry point. Exhaustive for escape adjacency (pairs) which is the only context the formatter has.",
        note="Trusts the harness's literal parser (written from the Rust reference) and serde_test."),
}
