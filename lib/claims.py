"""Texts for MANIFEST.json, one entry per claimed property."""
ENGINES = [
    {"name": "table", "path": "harness/bufmc/src/table.rs", "serves_properties": ["C14", "C15"],
     "kind_free_text": "exhaustive enumeration of a complete finite input universe x every impl x every representation, on the real crate under the oracle allocator"},
]
NOTES = "All checks: ./vcheck <ID> quick|thorough (python3 driver, rebuilds harness against /repo's working tree with the guard on). See DESIGN.md."
NOT_YET = {}
CLAIMS = {
    "C14": dict(engine="table", design_ref="DESIGN.md §3 C14",
        technique="exhaustive enumeration of a complete finite universe (all pairs of byte strings <=3 over 4 symbols x all representations x all comparison impls in both operand orders) on the real code",
        text="Every comparison/hash impl of the crate is executed on every ordered pair of a complete small universe of byte strings in every backing representation and compared with slice semantics; a violation is an operand-order or representation dependence of any impl. Exhaustive within the universe; comparison code does not branch on byte values beyond their order, so 4 symbols incl. 00 and ff plus prefix pairs cover the decision structure.",
        note="Trusts std slice comparison/hashing as reference; strings > 8 bytes not enumerated."),
    "C15": dict(engine="table", design_ref="DESIGN.md §3 C15",
        technique="exhaustive enumeration of all 1-byte strings, byte pairs and short escape-alphabet strings on the real code, against an independent literal parser and serde_test token streams",
        text="Debug output of every byte string of the universe is parsed back by an independent byte-string-literal parser and must decode to the contents; hex output compared digit by digit; serde round trips through every entry point. Exhaustive for escape adjacency (pairs) which is the only context the formatter has.",
        note="Trusts the harness's literal parser (written from the Rust reference) and serde_test."),
}
