"""Orchestration of engine C (loom models compiled into the crate's unit-test binary)."""
import json
import os
import subprocess
import time
from concurrent.futures import ThreadPoolExecutor

MODELS = os.path.join(os.path.dirname(os.path.dirname(os.path.abspath(__file__))), "loom_models", "models.rs")


def build(vc):
    env = vc.base_env()
    env["RUSTFLAGS"] = "--cfg loom " + vc.GUARD
    env["BYTES_VERIF_LOOM_MODELS"] = MODELS
    env["CARGO_TARGET_DIR"] = os.path.join(vc.TARGETS, "loom")
    t0 = time.time()
    p = subprocess.run(["cargo", "test", "--offline", "--lib", "--release", "--no-run", "--message-format=json"], cwd=vc.REPO, env=env,
                       stdout=subprocess.PIPE, stderr=subprocess.PIPE, text=True)
    exe = None
    for line in p.stdout.splitlines():
        try:
            m = json.loads(line)
        except Exception:
            continue
        if m.get("reason") == "compiler-artifact" and m.get("executable") and m.get("target", {}).get("name") == "bytes":
            exe = m["executable"]
    if p.returncode != 0 or not exe:
        import sys
        sys.stderr.write(p.stderr[-3000:])
        vc.log("BUILD FAILED (loom models)")
        sys.exit(2)
    vc.log("built loom model binary in %.1fs" % (time.time() - t0))
    return exe


def run_shard(args):
    exe, envx, timeout = args
    env = dict(os.environ)
    env.update(envx)
    start = 0
    merged = dict(programs=0, executions=0, capped_programs=0, programs_with_several_outcomes=0, family_size=0, violations=[], samples=[], wall_s=0.0, crashes=0)
    errors = []
    t_end = time.time() + timeout
    while True:
        env["VERIF_LOOM_START"] = str(start)
        try:
            p = subprocess.run([exe, "verif_loom_driver", "--nocapture", "--test-threads=1"], env=env, stdout=subprocess.PIPE, stderr=subprocess.STDOUT,
                               text=True, errors="replace", timeout=max(5, t_end - time.time()))
            out, rc = p.stdout, p.returncode
        except subprocess.TimeoutExpired as e:
            out = e.stdout.decode("utf8", "replace") if isinstance(e.stdout, bytes) else (e.stdout or "")
            errors.append("loom shard timed out: %s" % envx)
            rc = 124
        res = None
        last_prog, last_desc, done = None, "", set()
        for line in out.splitlines():
            if line.startswith("RESULT "):
                try:
                    res = json.loads(line[7:])
                except Exception as ex:
                    errors.append("bad RESULT line: %s" % ex)
            elif line.startswith("PROGRAM "):
                parts = line.split(" ", 2)
                last_prog, last_desc = int(parts[1]), parts[2] if len(parts) > 2 else ""
            elif line.startswith("DONE "):
                done.add(int(line.split()[1]))
        if res is not None:
            for k in ("programs", "executions", "capped_programs", "programs_with_several_outcomes"):
                merged[k] += res.get(k, 0)
            merged["family_size"] = res.get("family_size", 0)
            merged["violations"] += res.get("violations", [])
            merged["samples"] += res.get("samples", [])
            merged["wall_s"] += res.get("wall_s", 0)
            break
        if rc == 124:
            break
        # the process died inside a program (loom aborts on a double panic): record and resume after it
        if last_prog is not None and last_prog not in done:
            tail = [l for l in out.splitlines() if "panicked" in l or "Causality" in l or "C05" in l or "C06" in l][-3:]
            msg = " | ".join(tail) or out[-300:]
            prop = "C06,C05" if "Causality" in msg else "C05,C02,C03"
            merged["violations"].append({"program": last_prog, "property": prop, "msg": "model process aborted: " + msg[:400], "desc": last_desc})
            merged["crashes"] += 1
            merged["programs"] += len(done) + 1
            start = last_prog + 1
            if merged["crashes"] > 20:
                errors.append("too many aborts in one shard")
                break
            continue
        errors.append("loom shard produced no RESULT (rc=%s): %s" % (rc, out[-500:]))
        break
    return merged, errors, envx


def run(vc, pid, tier, sets):
    """sets: list of dict(set=, preemptions=, shards=, maxperm=)"""
    exe = build(vc)
    jobs = []
    for s in sets:
        for i in range(s["shards"]):
            jobs.append((exe, {"VERIF_LOOM_SET": s["set"], "VERIF_LOOM_SHARD": "%d/%d" % (i, s["shards"]), "VERIF_LOOM_PREEMPTIONS": str(s.get("preemptions", "none")),
                               "VERIF_LOOM_MAXPERM": str(s.get("maxperm", 2000000))}, s.get("timeout", 3000)))
    results, errors = [], []
    with ThreadPoolExecutor(max_workers=vc.NCPU) as ex:
        for merged, errs, envx in ex.map(run_shard, jobs):
            errors += errs
            viols = []
            for v in merged["violations"]:
                # each model violation names every property it breaks ("C05,C07,C01"); report it under the id being checked
                props = [x for x in v["property"].split(",") if x]
                # C08 (a sole owner can take its buffer back / uniqueness is truthful): an ordering or lifetime defect of a
                # program that contains a uniqueness-gated operation is a defect of that gate
                if pid == "C08" and ("C06" in props or "C05" in props) and any(o in v.get("desc", "") for o in ("TryIntoMut", "IntoMut", "IntoVec", "MReserve", "MTryReclaim", "MIntoVec", "IsUniqueRef")):
                    props.append("C08")
                # C04 (BytesMut regions are exclusive and a write through one is never visible through another handle): an
                # ordering or lifetime defect in a program over BytesMut halves, or one that produces / consumes a BytesMut
                if pid == "C04" and ("C06" in props or "C05" in props) and any(o in v.get("desc", "") for o in ("MutHalves", "MutThirds", "MWrite", "MReserve", "MTryReclaim", "MGrow", "MIntoVec", "MUnsplit", "MFreeze", "MSplit", "TryIntoMut", "IntoMut")):
                    props.append("C04")
                prop = pid if pid in props else props[0]
                viols.append({"property": prop, "case": "loom:" + v.get("desc", "")[:200], "msg": "%s | program #%s %s" % (v["msg"], v["program"], v.get("desc", "")),
                              "replay": {"engine": "loom", "env": dict(envx, VERIF_LOOM_ONLY=str(v["program"]))}})
            results.append({"engine": "loom", "property": pid, "config": "%s/%s/preemptions=%s" % (envx["VERIF_LOOM_SET"], envx["VERIF_LOOM_SHARD"], envx["VERIF_LOOM_PREEMPTIONS"]),
                            "evaluations": merged["executions"], "distinct_nontrivial": merged["programs_with_several_outcomes"], "states": merged["executions"],
                            "transitions": merged["executions"], "traces": merged["executions"], "programs": merged["programs"], "exhaustive": merged["capped_programs"] == 0,
                            "caps": (["%d programs hit the per-program execution cap" % merged["capped_programs"]] if merged["capped_programs"] else []),
                            "samples": merged["samples"][:2], "violations": viols,
                            "extra": {"capped_programs": merged["capped_programs"], "family_size": merged["family_size"], "aborted_runs": merged["crashes"]},
                            "machinery_error": None, "_worker": "loom " + json.dumps(envx), "_wall": merged["wall_s"]})
    return results, errors
