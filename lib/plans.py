"""Per-property plans: which engine workers to run per tier, and how results merge into evidence."""
import json
import os
import re
import sys

REPO = os.environ.get("VERIF_REPO", "/repo")


def W(binary, args, feat="std", profile="rel", **kw):
    d = dict(binary=binary, args=args, feat=feat, profile=profile)
    d.update(kw)
    return d


def plan_c14(tier):
    if tier == "thorough":
        ws = sharded("bufmc", "c14", "thorough", 16, ["rel", "dbg"], ["even", "odd"])
    else:
        ws = sharded("bufmc", "c14", "quick", 8, ["rel"], ["even", "odd"])
    return dict(
        workers=ws,
        level="model_checking", distinct_is_max=False,
        rule="complete finite universe: every ordered pair of byte strings of length <= 3 (thorough: <= 4) over {00,'a','b',c3,a9,ff} "
             "(c3 a9 is a two-byte UTF-8 scalar, so the str rows see non-ASCII text and the byte rows non-UTF-8 data; + prefix/extension families up to length 9, + strings of 256..70001 bytes) "
             "x every representation of each crate-typed side (incl. aliased views into one buffer and split halves) x every "
             "PartialEq/PartialOrd/Ord/Hash/Borrow impl in both operand orders x 7 operators, each compared with [u8] "
             "semantics; a case is distinct+non-trivial = a distinct ordered pair of byte strings",
        bounds="quick: 259+ strings (67 000+ ordered pairs), release profile, both parities; thorough: 1 555+ strings (2.4 M ordered pairs), release and debug profiles, both parities",
        assumptions=["std's slice comparison and hashing are the reference semantics",
                     "strings longer than 4 bytes are covered by families only; alphabets beyond 6 symbols are not enumerated (comparison code is byte-value independent apart from the ordering of the symbols, which include 00 and ff)"],
        post=post_c14,
    )


def post_c14(ev, results):
    # count comparison impls in the sources and compare with the rows the table exercised
    n_src = 0
    for f in ["src/bytes.rs", "src/bytes_mut.rs"]:
        try:
            n_src += len(re.findall(r"^impl(?:<[^>]*>)?\s+(?:PartialEq|PartialOrd|Ord|hash::Hash|Borrow)\b", open(os.path.join(REPO, f)).read(), re.M))
        except OSError:
            pass
    rows = set()
    for r in results:
        rows.update(r.get("extra", {}).get("rows", []))
    ev["coverage"]["impl_lines_in_sources"] = n_src
    ev["coverage"]["impl_rows_exercised"] = len(rows)


def plan_c15(tier):
    if tier == "thorough":
        ws = sharded("bufmc", "c15", "thorough", 16, ["rel", "dbg"], ["even", "odd"], feat="serde")
    else:
        ws = sharded("bufmc", "c15", "quick", 8, ["rel"], ["even", "odd"], feat="serde")
    return dict(
        workers=ws,
        level="model_checking", distinct_is_max=False,
        rule="complete finite universe: all 256 one-byte strings, all 65 536 byte pairs, all strings of length 3..4 (thorough: ..6) over the escape-relevant alphabet "
             "{00,'0','\"','\\','\\n',7f,80,'x'} (thorough: + all strings of length 3 over a 24-symbol alphabet), every length 5..80 and a spread up to 70 001 in a position-coded, an all-escapes and "
             "printable-with-one-escape pattern, x {Bytes, BytesMut} x representations; Debug parsed by an independent byte-string-literal parser, hex compared digit by digit, "
             "serde round trip through Bytes/BorrowedBytes/ByteBuf/Seq(4 hints)/Str/BorrowedStr/String tokens; distinct = distinct Debug outputs",
        assumptions=["the literal grammar is the one of the Rust reference (byte string literals)", "serde_test token streams stand for real (de)serializers"],
    )


def sharded(binary, engine, tier, n, profiles, parities, feat="std", extra=None):
    ws = []
    for prof in profiles:
        for par in parities:
            for i in range(n):
                ws.append(W(binary, [engine, "--tier", tier, "--parity", par, "--shard", str(i), "--nshards", str(n)] + (extra or []), feat=feat, profile=prof))
    return ws


def plan_c09(tier):
    if tier == "thorough":
        ws = sharded("bufmc", "c09", "thorough", 64, ["rel"], ["even", "odd"]) + sharded("bufmc", "c09", "quick", 16, ["dbg"], ["even", "odd"])
    else:
        ws = sharded("bufmc", "c09", "quick", 16, ["rel"], ["even"]) + sharded("bufmc", "c09", "mini", 8, ["dbg"], ["odd"])
    return dict(
        workers=ws, level="model_checking", distinct_is_max=False,
        rule="explicit-state exploration of the real crate: every adapter tree (leaves: &[u8], Bytes x5 representations, BytesMut x3, io::Cursor incl. position past the end, "
             "VecDeque at every wrap position, lawful multi-chunk user Bufs with default and full chunks_vectored; nodes: Take with limits {0,1,rem-1,rem,rem+1,MAX}, Chain, &mut, Box<dyn Buf>; every "
             "distribution of the payload over the leaves incl. empty leaves) x every sequence of consuming operations (advance/copy_to_slice/try_copy_to_slice/copy_to_bytes with k in {0,1,2,rem-1,rem,rem+1}, get_u8, "
             "set_limit, into_iter) up to the depth bound; at every reached state remaining/chunk/chunks_vectored(dst 0,1,2,3,17) and the structural model are checked. "
             "state = (tree, op sequence); distinct_nontrivial = distinct trees",
        bounds="quick: payload<=4 (chains<=3), <=2 leaves, <=2 unary adapters, op depth 2, release profile (+ a reduced set in the debug-assertions profile, odd parity); thorough: payload<=6 (chains<=5; every leaf kind in chains up to payload 3), <=3 leaves, <=2 unary adapters, op depth 3 (2 for chains), both parities in the release profile, plus the quick tier in the debug-assertions profile",
        assumptions=["a flat Vec<u8> denotation of the tree is the reference", "payload sizes and adapter depth are bounded as stated"],
    )


def plan_c10(tier):
    if tier == "thorough":
        ws = sharded("bufmc", "c10", "deep", 32, ["rel", "dbg"], ["even", "odd"])
    else:
        ws = sharded("bufmc", "c10", "thorough", 16, ["rel", "dbg"], ["even"])
    return dict(
        workers=ws, level="model_checking", distinct_is_max=False,
        rule="complete table: every get_X/try_get_X (76 fixed-size + 6 variable x nbytes 0..=8, and nbytes 9/16/MAX must panic) x buffer shapes (contiguous in every leaf type; 2 chunks with the boundary at every position; "
             "3 chunks incl. empty middle and both boundaries at every position; one byte per chunk; ring buffer wrapping at every position; behind Take/&mut/Box<dyn Buf>) x 0..=2 bytes consumed before "
             "x tail 0..=1 x byte patterns (msb,lsb in {00,01,7f,80,ff}^2 with position-coded middle bytes; all 256 values for 1-byte, all 65536 for 16-bit types) x shortfalls 0..size-1; expected value "
             "decoded independently; cursor position verified by draining the rest. distinct_nontrivial = distinct expected values",
        assumptions=["independent decoder in the harness (manual shift/or, two's complement) is the reference"],
    )


def plan_c11(tier):
    if tier == "thorough":
        ws = sharded("bufmc", "c11", "thorough", 32, ["rel", "dbg"], ["even", "odd"])
    else:
        ws = sharded("bufmc", "c11", "thorough", 32, ["rel"], ["even"]) + sharded("bufmc", "c11", "quick", 8, ["dbg"], ["odd"])
    return dict(
        workers=ws, level="model_checking", distinct_is_max=False,
        rule="explicit-state exploration of the real crate: every BufMut target tree (Vec and BytesMut in 3 representations at several len/spare levels, &mut [u8] and &mut [MaybeUninit<u8>] of sizes 0..=10,16,17,20 carved "
             "out of a guarded arena, Limit with limits {0,1,c-1,c,c+1,MAX}, Chain with the boundary at every position 0..=17 incl. 3-way chains and growable first halves, &mut, Box<dyn BufMut>) x write sequences: the complete "
             "put table (32 fixed putters x 25 msb/lsb edge values, 6 variable putters x nbytes 0..=9) from the initial state and after a positioning write, put_slice/put_bytes/put(Buf in 6 source shapes) with sizes "
             "{0,1,2,3,first-1,first,first+1,rem,rem+1}, up to depth 3; after every write contents, remaining_mut, chunk_mut and the arena guard bytes are compared with the model, and each typed value is read back with the matching getter. "
             "distinct_nontrivial = distinct target trees",
        bounds="depth 3 for sized writes, typed writes at depth 1-2; quick = rel profile, even parity (+ the reduced target set in the debug-assertions profile, odd parity); thorough = rel+dbg x even+odd",
        assumptions=["independent encoder in the harness is the reference", "fixed-size targets live in a harness arena with 0xEE guards; heap targets are guarded by the oracle allocator's canaries"],
    )


def plan_c12(tier):
    if tier == "thorough":
        ws = sharded("bufmc", "c12r", "thorough", 64, ["rel"], ["even"]) + sharded("bufmc", "c12r", "quick", 16, ["dbg"], ["even"]) + sharded("bufmc", "c12w", "thorough", 16, ["rel", "dbg"], ["even"])
    else:
        ws = sharded("bufmc", "c12r", "quick", 16, ["rel"], ["even"]) + sharded("bufmc", "c12w", "thorough", 16, ["rel"], ["even"]) + sharded("bufmc", "c12r", "mini", 8, ["dbg"], ["odd"]) + sharded("bufmc", "c12w", "quick", 4, ["dbg"], ["odd"])
    return dict(
        workers=ws, level="model_checking", distinct_is_max=False,
        rule="read side: the adapter trees of C09 with Reader roots (io::Read::read with every dst size, BufRead::fill_buf/consume) and Take roots with set_limit in mid-stream; write side: the target trees of C11 with "
             "Writer roots (io::Write::write with every src size, flush) and Limit roots with set_limit in mid-stream; after every operation limit(), get_ref(), "
             "first_ref/last_ref and every inner buffer's position/contents are compared with a structural model by recursion over the typed tree",
        bounds="as C09",
        assumptions=["structural model: Take(limit, inner), Chain(a, b), leaves with their remaining bytes"],
    )


HMC_ROOTS = ["0,0", "1,4", "2,4", "2,1", "3,4", "3,1", "4,4", "5,4", "6,4", "7,0", "8,0", "9,4", "9,1", "10,4", "10,1", "11,4", "12,4", "13,4", "14,4", "15,126", "15,64", "16,127", "17,4", "18,4", "11,1024", "19,4", "20,4", "21,4", "22,1024", "23,4", "24,4", "25,4", "26,4", "27,4", "28,4", "29,4"]
ROOT_WEIGHT = {"26,4": 1, "27,4": 1, "28,4": 1, "29,4": 1, "25,4": 26, "24,4": 4, "23,4": 24, "22,1024": 20, "20,4": 4, "21,4": 4, "19,4": 28, "11,1024": 30, "14,4": 28, "15,126": 25, "15,64": 25, "9,4": 24, "18,4": 22, "12,4": 18, "11,4": 17, "10,4": 17, "9,1": 14, "10,1": 12, "8,0": 8, "17,4": 8, "16,127": 8, "3,4": 7, "2,4": 5, "4,4": 5, "6,4": 5, "5,4": 4, "13,4": 1, "0,0": 1, "1,4": 2, "7,0": 3, "2,1": 3, "3,1": 4}
QUICK_SHALLOW = {"26,4": 2, "27,4": 2, "28,4": 2, "29,4": 2, "25,4": 3, "20,4": 3, "21,4": 3, "22,1024": 3, "23,4": 3, "19,4": 3, "11,1024": 3, "4,4": 3, "6,4": 3, "11,4": 3, "12,4": 3, "15,64": 3}
HMC_RULE = ("explicit-state search by replay over the real crate under the oracle allocator: states = canonical keys of the concrete handle pool (representation, offsets, lengths, capacities, "
            "reference counts, control blocks, allocation sizes, lineage; modulo address renaming and slot permutation), transitions = every enabled operation of the alphabet with every boundary argument "
            "(0,1,len-1,len,cap-1,cap,alloc-len, +1 variants, usize::MAX / isize::MAX class) on every live handle, from each of 36 roots (all representations, payload 0/1/4; uniquely held shared handles with a front offset; capacity-128, capacity-1024 and capacity-32768 buffers where size-relative policies and the original-capacity classes are active; a 1024-byte Vec-backed Bytes; owners that are plain Vecs, answer as_ref() differently per call or panic in their destructor; a full shared-form BytesMut; the remaining constructors From<String>, FromIterator<u8> for Bytes, From<&str>, FromIterator<&u8> at depth 2), "
            "<= 3 handles, second root allowed; after every transition all oracles run and a drop-all epilogue checks the ledger. distinct_nontrivial = transitions that changed the canonical state")


def hmc_workers(prop, depth, profiles, parities, flags, roots=None, alphabet="full", extra_depth=None):
    ws = []
    for prof in profiles:
        for par in parities:
            for r in (roots or HMC_ROOTS):
                d = depth
                if extra_depth and r in extra_depth:
                    d = extra_depth[r]
                ws.append(W("hmc", ["explore", "--root", r, "--depth", str(d), "--parity", par, "--alphabet", alphabet, "--property", prop] + flags, profile=prof, crash_property=prop))
    return ws


def plan_hmc(prop, flags_quick, flags_thorough_in, oracle_text, profiles_quick=("rel",), both_profiles_thorough=True, with_loom=False, with_miri=False, bufmut_stage=False):
    def plan(tier):
        flags_thorough = list(flags_thorough_in)
        if tier == "thorough":
            flags_thorough = flags_thorough + ["--rare-last"]
            # measured (2026-09-28, this host): depth 5 with the full alphabet is 1.2 M states / 100 s for a light root and
            # 15 M states / 20 min for a heavy one; the BytesMut-structure alphabet is 12.5 M states / 7 min at depth 6 and does
            # not finish at depth 7 (> 100 M states). Every worker carries a state cap that is reported if it is ever hit.
            flags_thorough = flags_thorough + ["--max-states", "40000000"]
            # (the roots with 1 KiB / 32 KiB buffers pay for filling and poisoning every allocation: one level less)
            ws = hmc_workers(prop, 5, ["rel"], ["even", "odd"], flags_thorough, extra_depth={"23,4": 4, "22,1024": 4, "11,1024": 4, "26,4": 3, "27,4": 3, "28,4": 3, "29,4": 3})
            if both_profiles_thorough:
                ws += hmc_workers(prop, 4, ["dbg"], ["even", "odd"], flags_thorough)
            for alph, d in (("bytes", 7), ("bytesmut", 6), ("conv", 8)):
                ws += hmc_workers(prop, d, ["rel"], ["even", "odd"], flags_thorough + ["--no-ooc", "--no-huge"], roots=["2,4", "3,4", "5,4", "9,4", "10,4"], alphabet=alph)
            # third allocator configuration: byte buffers carved back to back out of one arena (real address adjacency of unrelated buffers)
            ws += hmc_workers(prop, 4, ["rel"], ["adjacent"], flags_thorough, extra_depth={"2,4": 5, "8,0": 5, "10,1": 5, "3,1": 5, "2,1": 5})
        else:
            # roots whose representation coincides with another root's after construction are explored one level less
            ws = hmc_workers(prop, 4, ["rel"], ["even", "odd"], flags_quick, extra_depth=QUICK_SHALLOW)
            if "dbg" in profiles_quick:
                # debug-assertions / overflow-check build: every root one level less, the offset-carrying BytesMut roots in full
                ws += hmc_workers(prop, 3, ["dbg"], ["even", "odd"], flags_quick)
                ws += hmc_workers(prop, 4, ["dbg"], ["even"], flags_quick, roots=["9,4", "14,4"])
            ws += hmc_workers(prop, 4, ["rel"], ["adjacent"], flags_quick, roots=["2,4", "8,0", "9,4", "10,4", "10,1", "14,4", "25,4"], extra_depth={"9,4": 3, "14,4": 3, "25,4": 3})
        # longest-processing-time-first: heavy roots start first so that no long worker is left for the end
        def cost(w):
            a = w["args"]
            r, d = a[a.index("--root") + 1], int(a[a.index("--depth") + 1])
            return ROOT_WEIGHT.get(r, 10) * (12.0 ** (d - 4)) * (1.6 if w.get("profile") == "dbg" else 1.0)
        ws.sort(key=lambda w: -cost(w))
        if bufmut_stage:
            # the provided BufMut / Buf methods write and read memory too: the write-side engine (guarded arena, allocator
            # canaries) reports writes outside the target's region under this property as well
            if tier == "thorough":
                ws += sharded("bufmc", "c11", "thorough", 32, ["rel"], ["even", "odd"])
            else:
                ws += sharded("bufmc", "c11", "quick", 8, ["rel"], ["even"])
        extra = None
        if with_loom:
            import loomrun
            import sigprobe
            sets = [dict(set="quick", shards=16)] if tier != "thorough" else [dict(set="quick", shards=16), dict(set="full", shards=64, preemptions=3)]
            def extra(vc, t):
                r, e = loomrun.run(vc, prop, t, sets)
                if bufmut_stage:
                    # auxiliary (not a model-checking result): ill-typed safe programs must stay ill-typed
                    r3, e3 = sigprobe.run(vc, prop)
                    r, e = r + r3, e + e3
                if with_miri and t == "thorough":
                    import mirirun
                    # (the 1 KiB / 32 KiB roots are left out: filling and poisoning their allocations under the interpreter takes
                    # tens of minutes per operation sweep)
                    roots0 = [x for x in HMC_ROOTS if x not in ("15,64", "22,1024", "23,4", "11,1024")]
                    jobs = [(x, 0, 0, 1) for x in roots0] + [(x, 1, i, 16) for x in ("2,4", "9,4", "14,4") for i in range(16)]
                    r2, e2 = mirirun.run(vc, prop, jobs)
                    r, e = r + r2, e + e2
                return r, e
        return dict(workers=ws, extra=extra, level="model_checking", distinct_is_max=False, rule=HMC_RULE + "; oracle of this check: " + oracle_text + (
                    "; additionally the loom program family of C05 (concurrent histories) is run and its violations of this property are reported here" if with_loom else ""),
                    bounds="quick: depth 4 (root + 4 operations), full alphabet incl. out-of-contract arguments (the rarely used entry points - write_char, the UninitSlice API, iterator adaptors, tuple-bound slices, exact-looking lying size hints, zero-fill resize, a second chunk_mut before the commit - as the first or second operation, the states they reach explored to the full depth), both parities, release profile (5 roots whose representation coincides with another root one level less; + 6 roots in the adjacent-arena allocator configuration; checks that name profiles add the debug-assertions build at depth 3 and at depth 4 for the offset-carrying BytesMut roots); thorough: depth 5 in the release profile x even+odd (rare entry points at every level), depth 4 in the debug-assertions profile, focused alphabets (Bytes-only depth 7, BytesMut structure depth 6, conversions depth 8), the adjacent-arena configuration at depth 4 (5 for the light roots); every worker with a reported cap of 40 M states",
                    assumptions=["buffers <= 6 bytes; arguments are the listed boundary values", "data independence: byte values are not part of the state key (they are compared with the model on every execution)",
                                 "the hook descriptors are used only for the state key, never as an oracle"])
    return plan


def plan_loom(prop, oracle_text):
    def plan(tier):
        import loomrun
        if tier == "thorough":
            sets = [dict(set="quick", shards=16), dict(set="full", shards=96, preemptions=4), dict(set="k3", shards=64, preemptions=3), dict(set="three", shards=32, preemptions=3)]
        else:
            sets = [dict(set="quick", shards=16), dict(set="full", shards=64, preemptions=2)]
        return dict(custom=lambda vc, t: loomrun.run(vc, prop, t, sets), level="model_checking", distinct_is_max=False,
                    rule="loom (exhaustive DPOR over interleavings and the C11 outcomes loom models) on the real crate compiled with loom atomics, over a generated family of programs: "
                         "representation in {promotable even/odd, with and without front offset, promoted, Vec-shared, owner-backed, frozen BytesMut half, two/three live BytesMut pieces, static} x main behaviour "
                         "{keep, drop early, clone+drop, into Vec} x unordered pairs (triples) of per-thread operation sequences over {clone via &Bytes, clone own, read, slice, drop, try_into_mut, Into<BytesMut>, Into<Vec>, "
                         "BytesMut write / reclaiming reserve / try_reclaim / freeze / unsplit}; one loom::model per program; oracle: " + oracle_text +
                         ". evaluations = loom executions; distinct_nontrivial = programs in which different schedules produced different outcomes (who won ownership)",
                    bounds="quick: (a) 2 threads + main, <= 2 ops per thread over the racy core, programs with <= 3 ops in total (about 1 100 programs), unbounded preemptions; (b) the full alphabet K<=2 (about 40 500 programs) with preemption bound 2. "
                           "thorough: (a) again, full alphabet K<=2 with preemption bound 4, racy core K<=3 (about 48 000 programs) with bound 3, three worker threads with bound 3. Unbounded exploration of the full family was measured at about 80 CPU-minutes per 200th of the family and is not part of any tier",
                    assumptions=["loom's memory model is a sound subset of C11 (no SeqCst fences precision, no load buffering)", "ghost-cell accesses stand for the crate's internal buffer accesses (placed so that a reported race implies a real one)",
                                 "the extra-platforms (portable-atomic) build is not modelled by loom"])
    return plan


def plan_c18(tier):
    ws = []
    def R(args, prof="rel", par="even"):
        return W("hmc", ["recycle", "--parity", par] + args, profile=prof, crash_property="C18")
    # closed graphs (fixpoint): small sets, one worker per initial capacity
    for cap in ["0", "8", "16"]:
        ws.append(R(["--set", "small", "--cap", cap, "--k", "0", "--roundtrip", "--unsplit", "--periodic", "3"]))
        ws.append(R(["--set", "small", "--cap", cap, "--k", "0", "--roundtrip", "--unsplit", "--periodic", "3"], par="odd"))
        ws.append(R(["--set", "small", "--cap", cap, "--k", "0", "--appends", "--roundtrip", "--unsplit", "--periodic", "2"]))
        ws.append(R(["--set", "small", "--cap", cap, "--k", "1", "--appends", "--splits", "--periodic", "2", "--periodic-only"], par="odd"))
        ws.append(R(["--set", "small", "--cap", cap, "--k", "0", "--appends", "--splits", "--roundtrip", "--periodic", "2", "--periodic-only"]))
        ws.append(R(["--set", "small", "--cap", cap, "--k", "1"]))
        ws.append(R(["--set", "small", "--cap", cap, "--k", "1", "--roundtrip"], par="odd"))
        ws.append(R(["--set", "small", "--cap", cap, "--k", "1", "--periodic", "3", "--periodic-only"]))
        ws.append(R(["--set", "small", "--cap", cap, "--k", "2", "--periodic", "3", "--roundtrip", "--unsplit", "--periodic-only"]))
    # threshold sets (original-capacity logic): periodic enumeration in quick, fixpoint in thorough
    for st in ["t1k", "t2k", "t64k"]:
        ws.append(R(["--set", st, "--k", "0", "--roundtrip", "--unsplit", "--periodic", "4", "--rounds", "40", "--periodic-only"]))
        ws.append(R(["--set", st, "--k", "1", "--periodic", "3", "--rounds", "40", "--periodic-only"]))
        ws.append(R(["--set", st, "--k", "0", "--appends", "--splits", "--periodic", "2", "--rounds", "40", "--periodic-only"]))
    if tier == "thorough":
        for cap in ["0", "8", "16"]:
            ws.append(R(["--set", "small", "--cap", cap, "--k", "2", "--max-states", "3000000", "--max-seconds", "1500"]))
            ws.append(R(["--set", "small", "--cap", cap, "--k", "1", "--unsplit", "--max-states", "3000000", "--max-seconds", "1500"]))
            ws.append(R(["--set", "small", "--cap", cap, "--k", "0", "--roundtrip", "--unsplit", "--periodic", "4"], prof="dbg"))
            ws.append(R(["--set", "small", "--cap", cap, "--k", "1", "--periodic", "4", "--periodic-only"]))
            ws.append(R(["--set", "small", "--cap", cap, "--k", "0", "--appends", "--splits", "--roundtrip", "--unsplit", "--periodic", "3", "--periodic-only"]))
        ws.append(R(["--set", "t64k", "--k", "0", "--max-states", "400000", "--max-seconds", "1500"]))
        ws.append(R(["--set", "t64k", "--k", "1", "--max-states", "600000", "--max-seconds", "1500"]))
        ws.append(R(["--set", "t1k", "--k", "0", "--max-states", "2000000", "--max-seconds", "1500"]))
        ws.append(R(["--set", "t2k", "--k", "0", "--max-states", "2000000", "--max-seconds", "1500"]))
    return dict(
        workers=ws, level="model_checking", distinct_is_max=False,
        rule="the recycle protocol as a nondeterministic transition system over the real crate (refill = reserve(n)+append, or append through Extend with exact / zero lower size hints, put_slice, put_bytes, the chunk_mut/advance_mut protocol or resize; consume by split/split_to/advance/truncate/clear with or without freeze, retention window of k parts, "
             "freeze->try_into_mut round trip, unsplit variants), explored breadth-first over canonical states (hook descriptor of the recycling handle + which block each retained part pins) TO FIXPOINT: a closed graph covers "
             "histories of every length; oracles: live heap bytes <= explicit bound in every state, (k=0) no byte-buffer-allocating transition on a cycle (Tarjan SCC), reserve on an empty sole owner of a large-enough buffer touches no allocator. "
             "Plus exhaustive enumeration of all periodic schedules of period <= 3 (4 thorough; threshold sets: <= 4 with the freeze round trip, <= 3 with a retention window, <= 2 with every appending entry point) over the alphabet for 400 (threshold sets: 40) rounds. states = canonical states; distinct_nontrivial = states",
        bounds="small sets: initial capacity {0,8,16}, n in {1,3,7}, k in {0,1} closed (k=2 thorough); threshold sets: initial capacity {1024,2048,65536}, n in {100,1000,5000} on a grid of 100 (closed graphs in thorough where they close within the state budget, periodic enumeration in quick)",
        assumptions=["retained parts are inert (only ever dropped), so only the block they pin is part of the state", "sizes are bounded as stated; a graph that does not close within the budget is reported as non-exhaustive, never as a violation"],
    )


def plan_c16(tier):
    import c16
    return dict(custom=lambda vc, t: c16.run(vc, "C16", t), level="model_checking", distinct_is_max=False,
                rule="the complete (no deduplication) enumeration of operation histories of engine A - every operation with every boundary, out-of-contract and usize::MAX-class argument on every handle, from each of 18 roots - "
                     "is executed in 12 configurations {std, no-default-features, extra-platforms} x {release, debug-assertions+overflow-checks} x {even, odd allocator addresses}; per history the address-free observable record "
                     "(which calls panicked, return values, contents, lengths, capacities, uniqueness, leaks) is hashed per bucket (root, first operation) and the 12 digest vectors are compared; the first differing history is located by "
                     "dumping the bucket in both configurations. Second stage: the Buf/BufMut engines (adapter trees x cursor operations, putters on every target, Writer, the getter table) run in the release and the debug-assertions profile against their profile-independent models; a case that fails in one profile only is reported as a profile dependence. evaluations = histories / sequences executed; distinct_nontrivial = buckets",
                bounds="quick: every history of <= 2 operations after the root (about 10^4 per root and configuration); thorough: <= 3 operations (about 10^6)",
                assumptions=["capacities are compared too (Vec growth policy is configuration independent)", "big-endian / 32-bit targets are not run"])


def plan_c17(tier):
    if tier == "thorough":
        ws = sharded("bufmc", "c17", "thorough", 16, ["rel", "dbg"], ["even", "odd"])
    else:
        ws = sharded("bufmc", "c17", "thorough", 16, ["rel"], ["even"]) + sharded("bufmc", "c17", "quick", 4, ["dbg"], ["odd"])
    # the serde side (feature build): sequences beyond the 4096-element capacity cap of visit_seq with honest and lying length hints
    ws += [W("bufmc", ["c17s", "--parity", par], feat="serde", profile=prof) for par in ("even", "odd") for prof in (("rel", "dbg") if tier == "thorough" else ("rel",))]
    return dict(
        workers=ws, level="fault_enumeration", distinct_is_max=True,
        rule="fault enumeration: scripted misbehaving safe trait impls (Buf: remaining() +-1, +-7, 0, usize::MAX/2, usize::MAX or panicking; chunk() empty / shorter / longer-than-admitted / panicking; advance() ignored / partial / panicking; "
             "AsRef owner that panics or answers a different slice per call; iterators with size hints 0 / too small / too large / usize::MAX or panicking) passed to 24 entry points (BytesMut/Vec/slice/Limit/Chain put, default and overridden "
             "copy_to_bytes, copy_to_slice, getters on fast and slow paths and through Take/&mut/Box<dyn>/Chain, chunks_vectored, Reader, IntoIter, from_owner, Extend/FromIterator); ALL placements of <= 2 (first calls: <= 3) deviations among the first calls of each method "
             "(quick: all single deviations among the first 6 calls, all pairs among the first 6 and all triples among the first 2 calls of each method in rel, a reduced set in dbg/odd; thorough: all pairs among the first 8 calls and all triples among the first 3 calls of each method, in rel+dbg x even+odd); lies that lead to allocatable-but-huge requests run in forked children; oracle: allocator ledger, canaries, "
             "no guard/poison/uninitialised byte in any output (the liar's data sits flush against a canary zone), nothing leaked after unwinding. distinct_nontrivial = distinct deviation scripts",
        assumptions=["panics and wrong data are allowed outcomes", "a fuel counter bounds every scripted implementation so that lying cannot make an execution infinite"],
    )


PLANS = {
    "C17": plan_c17,
    "C16": plan_c16,
    "C18": plan_c18,
    "C05": plan_loom("C05", "every read sees the expected bytes at the original address; at most one party obtains the buffer without copying and whoever does overwrites it; the tracked buffer is freed exactly once, no control block referring to it leaks, no block is freed twice"),
    "C06": plan_loom("C06", "loom's causality check on ghost UnsafeCells: a ghost read before every use/drop of a handle, a ghost write at the real free (inside the allocator hook) and after every zero-copy exclusive acquisition; plus loom's own checks on the crate's atomics (with_mut vs concurrent loads)"),
    "C01": plan_hmc("C01", [], [], "after every step every live handle's bytes, len, Buf::remaining/chunk equal an independent Vec<u8> model with globally unique payload bytes; Vec::from results compared", with_loom=True),
    "C02": plan_hmc("C02", ["--oom-probes"], ["--oom-probes"], "allocator ledger (unknown/interior/double/wrong-layout frees), canaries and poison verified after every step, containment of every non-empty handle in one live block or registered region, process status (crash handler), fork-isolated allocatable-but-huge requests", profiles_quick=("rel", "dbg"), with_loom=True, with_miri=True, bufmut_stage=True),
    "C03": plan_hmc("C03", ["--perms"], ["--perms"], "drop-all epilogue after every transition and in every permutation at every new canonical state: no crate-attributed block live, no double free; instrumented owner: as_ref once, dropped exactly once, not before the last view, also when as_ref panics", with_loom=True),
    "C04": plan_hmc("C04", [], [], "BytesMut capacity regions pairwise disjoint, disjoint from visible Bytes, inside one live block; fill-spare writes invisible elsewhere; reserve/try_reclaim promises incl. unrepresentable sizes", profiles_quick=("rel", "dbg"), with_loom=True),
    "C07": plan_hmc("C07", [], [], "per transition: listed sharing operations allocate no align-1 block and every resulting non-empty handle (for split_off/split_to also empty ones) starts at source address + logical offset", with_loom=True),
    "C08": plan_hmc("C08", ["--probes"], ["--probes"], "is_unique() evaluated on every live Bytes in every state against physical sharing (allocator map) and a conservative lineage relation; try_into_mut Ok iff unique, same address; sole-owner probes: try_reclaim(n) true for n in {0,1,T-1,T} and reserve(n) without allocator events", with_loom=True),
    "C13": plan_hmc("C13", [], [], "every out-of-contract action at every reachable state must panic (or be the documented no-op) and leave ptr/len/cap/bytes of every handle unchanged; exploration continues and the epilogue checks release", profiles_quick=("rel", "dbg")),
    "C09": plan_c09,
    "C10": plan_c10,
    "C11": plan_c11,
    "C12": plan_c12,
    "C14": plan_c14,
    "C15": plan_c15,
}


def merge(pid, tier, plan, results):
    cov = dict(states=0, transitions=0, traces_validated_against_impl=0, evaluations=0, distinct_nontrivial=0,
               samples=[], exhaustive=True, caps=[], workers=[])
    viols = []
    dn = 0
    for r in results:
        cov["states"] += r.get("states", 0)
        cov["transitions"] += r.get("transitions", 0)
        cov["traces_validated_against_impl"] += r.get("traces", 0)
        cov["evaluations"] += r.get("evaluations", 0)
        dn = max(dn, r.get("distinct_nontrivial", 0)) if plan.get("distinct_is_max", True) else dn + r.get("distinct_nontrivial", 0)
        if r.get("programs"):
            cov["programs"] = cov.get("programs", 0) + r["programs"]
        for s in r.get("samples", [])[:3]:
            if len(cov["samples"]) < 12:
                cov["samples"].append(s)
        if not r.get("exhaustive", True):
            cov["exhaustive"] = False
        cov["caps"].extend(r.get("caps", []))
        w = {"worker": r.get("_worker", r.get("config")), "config": r.get("config"), "states": r.get("states"),
             "transitions": r.get("transitions"), "evaluations": r.get("evaluations"), "wall_s": round(r.get("_wall", 0), 2)}
        w.update({k: v for k, v in r.get("extra", {}).items() if not isinstance(v, list) or len(v) <= 40})
        cov["workers"].append(w)
        for v in r.get("violations", []):
            v = dict(v)
            v["worker"] = r.get("_worker", r.get("config"))
            viols.append(v)
    cov["distinct_nontrivial"] = dn
    cov["rule"] = plan.get("rule", "")
    cov["bounds"] = plan.get("bounds", "")
    if not cov["samples"]:
        cov["samples"] = ["(no sample produced)"]
    ev = dict(property_id=pid, tier=tier, seed=0, level=plan.get("level", "model_checking"), coverage=cov,
              assumptions=plan.get("assumptions", []), wall_s=0.0, violations=0)
    if plan.get("post"):
        plan["post"](ev, results)
    # dedupe violations by (property, case)
    seen, out = set(), []
    for v in viols:
        k = (v["property"], v["case"])
        if k not in seen:
            seen.add(k)
            out.append(v)
    return ev, out, None


def setup(vc):
    for feat, profs, bins in [("std", ["rel", "dbg"], ["bufmc", "hmc"]), ("serde", ["rel", "dbg"], ["bufmc"]), ("nostd", ["rel", "dbg"], ["hmc"]), ("extra", ["rel", "dbg"], ["hmc"])]:
        for prof in profs:
            for b in bins:
                vc.build(b, feat, prof)
    import loomrun
    loomrun.build(vc)
    sys.exit(0)


def replay(vc, path):
    """Re-execute a replay artefact against the current /repo tree.
    hmc artefacts carry the operation history: it is executed step by step by `hmc replay` (no explorer).
    Other engines are deterministic enumerations: the recorded worker is re-run and the same case looked up."""
    import subprocess
    d = json.load(open(path))
    print(json.dumps(d, indent=1))
    rp = d.get("replay") or {}
    if isinstance(rp, dict) and rp.get("engine") == "hmc" and rp.get("history"):
        prof = rp.get("profile", "rel")
        exe = vc.build("hmc", "std", prof)
        hist = json.dumps(rp["history"], separators=(",", ":"))
        cmd = [exe, "replay", hist, "--parity", rp.get("parity", "even")]
        if rp.get("drop_order"):
            cmd += ["--drop-order", ",".join(str(x) for x in rp["drop_order"])]
        p = subprocess.run(cmd, cwd=vc.VERIF, env=vc.base_env())
        print("replay exit status %d (%s)" % (p.returncode, "violation reproduced" if p.returncode != 0 else "no violation on this tree"))
        sys.exit(1 if p.returncode != 0 else 0)
    w = d.get("worker") or ""
    m = re.match(r"(bufmc|hmc) (.*)", w)
    if m:
        feat = "serde" if " c15 " in " " + m.group(2) + " " else "std"
        seen = False
        for prof in ("rel", "dbg"):
            exe = vc.build(m.group(1), feat, prof)
            p = subprocess.run([exe] + m.group(2).split(), cwd=vc.VERIF, env=vc.base_env(), stdout=subprocess.PIPE, stderr=subprocess.PIPE, text=True, errors="replace")
            for line in p.stdout.splitlines():
                if line.startswith("RESULT "):
                    try:
                        r = json.loads(line[7:])
                    except Exception:
                        continue
                    for v in r.get("violations", []):
                        if v["property"] == d["property"] and v["case"] == d["case"]:
                            seen = True
                            print("reproduced [%s]: %s" % (prof, v["msg"][:400]))
            if p.returncode == 70 or "CRASH signal=" in p.stderr:
                seen = True
                print("reproduced [%s]: engine crashed again: %s" % (prof, [l for l in p.stderr.splitlines() if l.startswith("CRASH")][:1]))
            if seen:
                break
        print("violation reproduced" if seen else "no violation on this tree")
        sys.exit(1 if seen else 0)
    print("(loom artefacts: re-run `vcheck %s quick`; the program name in the message selects the loom::model)" % d.get("property"))
    sys.exit(0)
