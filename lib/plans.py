"""Per-property plans: which engine workers to run per tier, and how results merge into evidence."""
import json
import os
import re
import sys

REPO = os.environ.get("VERIF_REPO", "/repo")


def W(binary, args, feat="std", profile="rel", **kw):
    d = dict(binary=binary, args=args, feat=feat, profile=profile)
    d.update(kw)
    return d


def plan_c14(tier):
    ws = []
    profs = ["rel", "dbg"] if tier == "thorough" else ["rel"]
    for prof in profs:
        for par in ["even", "odd"]:
            ws.append(W("bufmc", ["c14", "--tier", tier, "--parity", par], profile=prof))
    return dict(
        workers=ws,
        level="model_checking",
        rule="complete finite universe: every ordered pair of byte strings of length <= 3 over {00,'a','b',ff} "
             "(+ prefix/extension families up to length 8) x every representation of each crate-typed side x every "
             "PartialEq/PartialOrd/Ord/Hash/Borrow impl in both operand orders x 7 operators, each compared with [u8] "
             "semantics; a case is distinct+non-trivial = a distinct ordered pair of byte strings",
        assumptions=["std's slice comparison and hashing are the reference semantics",
                     "strings longer than 8 bytes and alphabets beyond 4 symbols are not enumerated (comparison code is byte-value independent apart from ordering of the 4 symbols incl. 00 and ff)"],
        post=post_c14,
    )


def post_c14(ev, results):
    # count comparison impls in the sources and compare with the rows the table exercised
    n_src = 0
    for f in ["src/bytes.rs", "src/bytes_mut.rs"]:
        try:
            n_src += len(re.findall(r"^impl(?:<[^>]*>)?\s+(?:PartialEq|PartialOrd|Ord|hash::Hash|Borrow)\b", open(os.path.join(REPO, f)).read(), re.M))
        except OSError:
            pass
    rows = set()
    for r in results:
        rows.update(r.get("extra", {}).get("rows", []))
    ev["coverage"]["impl_lines_in_sources"] = n_src
    ev["coverage"]["impl_rows_exercised"] = len(rows)


def plan_c15(tier):
    ws = []
    profs = ["rel", "dbg"] if tier == "thorough" else ["rel"]
    for prof in profs:
        for par in ["even", "odd"]:
            ws.append(W("bufmc", ["c15", "--tier", tier, "--parity", par], feat="serde", profile=prof))
    return dict(
        workers=ws,
        level="model_checking",
        rule="complete finite universe: all 256 one-byte strings, all byte pairs (thorough: all 65536; quick: every byte next "
             "to every escape-relevant byte in both positions), all strings of length 3 (thorough: 4) over the escape-relevant alphabet, x "
             "{Bytes, BytesMut} x representations; Debug parsed by an independent byte-string-literal parser, hex compared digit by digit, "
             "serde round trip through Bytes/BorrowedBytes/ByteBuf/Seq(4 hints)/Str/BorrowedStr/String tokens; distinct = distinct Debug outputs",
        assumptions=["the literal grammar is the one of the Rust reference (byte string literals)", "serde_test token streams stand for real (de)serializers"],
    )


PLANS = {
    "C14": plan_c14,
    "C15": plan_c15,
}


def merge(pid, tier, plan, results):
    cov = dict(states=0, transitions=0, traces_validated_against_impl=0, evaluations=0, distinct_nontrivial=0,
               samples=[], exhaustive=True, caps=[], workers=[])
    viols = []
    dn = 0
    for r in results:
        cov["states"] += r.get("states", 0)
        cov["transitions"] += r.get("transitions", 0)
        cov["traces_validated_against_impl"] += r.get("traces", 0)
        cov["evaluations"] += r.get("evaluations", 0)
        dn = max(dn, r.get("distinct_nontrivial", 0)) if plan.get("distinct_is_max", True) else dn + r.get("distinct_nontrivial", 0)
        if r.get("programs"):
            cov["programs"] = cov.get("programs", 0) + r["programs"]
        for s in r.get("samples", [])[:3]:
            if len(cov["samples"]) < 12:
                cov["samples"].append(s)
        if not r.get("exhaustive", True):
            cov["exhaustive"] = False
        cov["caps"].extend(r.get("caps", []))
        w = {"worker": r.get("_worker", r.get("config")), "config": r.get("config"), "states": r.get("states"),
             "transitions": r.get("transitions"), "evaluations": r.get("evaluations"), "wall_s": round(r.get("_wall", 0), 2)}
        w.update({k: v for k, v in r.get("extra", {}).items() if not isinstance(v, list) or len(v) <= 40})
        cov["workers"].append(w)
        for v in r.get("violations", []):
            v = dict(v)
            v["worker"] = r.get("_worker", r.get("config"))
            viols.append(v)
    cov["distinct_nontrivial"] = dn
    cov["rule"] = plan.get("rule", "")
    cov["bounds"] = plan.get("bounds", "")
    if not cov["samples"]:
        cov["samples"] = ["(no sample produced)"]
    ev = dict(property_id=pid, tier=tier, seed=0, level=plan.get("level", "model_checking"), coverage=cov,
              assumptions=plan.get("assumptions", []), wall_s=0.0, violations=0)
    if plan.get("post"):
        plan["post"](ev, results)
    # dedupe violations by (property, case)
    seen, out = set(), []
    for v in viols:
        k = (v["property"], v["case"])
        if k not in seen:
            seen.add(k)
            out.append(v)
    return ev, out, None


def setup(vc):
    for feat, profs in [("std", ["rel", "dbg"]), ("serde", ["rel", "dbg"])]:
        for prof in profs:
            for b in ["bufmc", "hmc"]:
                vc.build(b, feat, prof)
    sys.exit(0)


def replay(vc, path):
    d = json.load(open(path))
    print(json.dumps(d, indent=1))
    sys.exit(0)
