#!/usr/bin/env python3
"""Regenerate /verif/MANIFEST.json from lib/plans.py + lib/claims.py (keeps it valid at all times)."""
import json, os, subprocess, sys
HERE = os.path.dirname(os.path.abspath(__file__))
sys.path.insert(0, HERE)
import plans, claims
VERIF = os.path.dirname(HERE)
props = [json.loads(l)["id"] for l in open(os.path.join(VERIF, "properties.jsonl"))]
hooks = subprocess.run(["git", "-C", "/repo", "log", "--format=%h %s", "--grep=^verif hooks"], stdout=subprocess.PIPE, text=True).stdout.strip().splitlines()
checks, na = [], []
for p in props:
    if p in plans.PLANS and p in claims.CLAIMS:
        c = claims.CLAIMS[p]
        checks.append({
            "property_id": p,
            "quick_cmd": "./vcheck %s quick" % p,
            "thorough_cmd": "./vcheck %s thorough" % p,
            "evidence_file": "evidence/%s.json" % p,
            "replay_cmd_template": "./vcheck replay {path}",
            "engine": c["engine"],
            "level_claimed": {"category": c.get("level", "model_checking"), "text": c["text"], "design_ref": c["design_ref"]},
            "level_note": c["note"],
            "technique": c["technique"],
        })
    else:
        na.append({"property_id": p, "reason": claims.NOT_YET.get(p, "check not built yet in this round; no claim is made")})
m = {
    "version": 1,
    "setup_cmd": "./vcheck setup",
    "hooks": {
        "guard": "--cfg tokio_rs_bytes_verif",
        "enable": "RUSTFLAGS=\"--cfg tokio_rs_bytes_verif\" (harness builds; loom builds add --cfg loom and BYTES_VERIF_LOOM_MODELS=/verif/loom_models/models.rs)",
        "baseline_off_cmd": "./vcheck baseline-off",
        "source_commits": [h.split()[0] for h in hooks],
        "add_only": True,
    },
    "engines": claims.ENGINES,
    "checks": checks,
    "not_applicable": na,
    "notes": claims.NOTES,
}
json.dump(m, open(os.path.join(VERIF, "MANIFEST.json"), "w"), indent=1)
print("MANIFEST.json: %d checks, %d not claimed" % (len(checks), len(na)))
