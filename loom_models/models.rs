// Engine C (DESIGN.md §2.3, C05, C06): loom models compiled *into the crate's own unit-test
// binary* (the crate switches to loom atomics only for cfg(all(test, loom))). Included via
//   #[cfg(all(test, loom, tokio_rs_bytes_verif))] mod verif_loom { include!(env!("BYTES_VERIF_LOOM_MODELS")); }
//
// A generated family of small multi-threaded programs is interpreted from a table; every
// program is explored by loom under every interleaving (and every C11 outcome loom models).
// Buffer memory is real heap memory, so it is routed through ghost `loom::cell::UnsafeCell`s:
//   * a global allocator (this file) performs `ghost.with_mut` at the real moment a tracked
//     buffer is deallocated, quarantines it (no address reuse), and counts frees;
//   * a thread does a real + ghost read right before every call that reads through, consumes
//     or drops a handle, and a real + ghost write after every call that handed it zero-copy
//     exclusive ownership.
use std::prelude::v1::*;
use std::{format, println, vec};

use std::alloc::{GlobalAlloc, Layout, System};
use std::panic::{catch_unwind, AssertUnwindSafe};
use std::sync::atomic::{AtomicBool as StdBool, AtomicUsize as StdUsize, Ordering::SeqCst};

use crate::{Buf, Bytes, BytesMut};

// ------------------------------------------------------------------ allocator with a log

const NLOG: usize = 2048;
const SMALL: usize = 160;
#[derive(Clone, Copy)]
struct Entry {
    addr: usize, // address handed to the program
    size: usize,
    align: usize,
    shift: usize, // odd-address shift applied
    live: bool,
}
struct Log {
    n: usize,
    e: [Entry; NLOG],
    overflow: bool,
}
struct G(std::cell::UnsafeCell<Log>);
unsafe impl Sync for G {}
static LOG: G = G(std::cell::UnsafeCell::new(Log { n: 0, e: [Entry { addr: 0, size: 0, align: 0, shift: 0, live: false }; NLOG], overflow: false }));
static LOCK: StdBool = StdBool::new(false);
static WINDOW: StdBool = StdBool::new(false);
static ODD: StdBool = StdBool::new(false);
// tracked buffers: base address and ghost cell per region (up to 2 regions: halves)
static TRACK_BASE: StdUsize = StdUsize::new(0);
static GHOST: [StdUsize; 2] = [StdUsize::new(0), StdUsize::new(0)];
static FREES: StdUsize = StdUsize::new(0);
static DOUBLE_FREE: StdUsize = StdUsize::new(0);
static GHOST_PANIC: StdBool = StdBool::new(false);
/// length of the view that the conversion call in progress may have to copy (0 = no conversion in progress). An exactly
/// sized align-1 allocation made meanwhile is the destination of that copy: the crate reads the shared buffer right after it,
/// so the allocator performs a ghost *read* at that point of the program order (single-region programs only). A copy that was
/// moved behind the release of the handle's reference is then not ordered before the deallocation - although no scheduling
/// point lies between that release and the copy.
static CONV_LEN: StdUsize = StdUsize::new(0);
fn conv_begin(len: usize) {
    CONV_LEN.store(len, SeqCst);
}
fn conv_end() {
    CONV_LEN.store(0, SeqCst);
}

fn lock() {
    while LOCK.compare_exchange(false, true, SeqCst, SeqCst).is_err() {
        std::hint::spin_loop();
    }
}
fn unlock() {
    LOCK.store(false, SeqCst);
}
fn log() -> &'static mut Log {
    unsafe { &mut *LOG.0.get() }
}

struct A;
unsafe impl GlobalAlloc for A {
    unsafe fn alloc(&self, l: Layout) -> *mut u8 {
        if !WINDOW.load(SeqCst) || !(l.size() <= SMALL || l.align() == 1) {
            return System.alloc(l);
        }
        let shift = if l.align() == 1 && ODD.load(SeqCst) { 1 } else { 0 };
        let p = System.alloc(Layout::from_size_align_unchecked(l.size() + shift, if l.align() < 2 { 2 } else { l.align() }));
        if p.is_null() {
            return p;
        }
        let user = p.add(shift);
        lock();
        let lg = log();
        if lg.n < NLOG {
            lg.e[lg.n] = Entry { addr: user as usize, size: l.size(), align: l.align(), shift, live: true };
            lg.n += 1;
        } else {
            lg.overflow = true;
        }
        unlock();
        let cl = CONV_LEN.load(SeqCst);
        if cl != 0 && l.align() == 1 && l.size() == cl && GHOST[1].load(SeqCst) == 0 {
            let gp = GHOST[0].load(SeqCst) as *const loom::cell::UnsafeCell<()>;
            if !gp.is_null() {
                let r = catch_unwind(AssertUnwindSafe(|| (*gp).with(|_| ())));
                if r.is_err() {
                    GHOST_PANIC.store(true, SeqCst);
                }
            }
        }
        user
    }
    unsafe fn dealloc(&self, p: *mut u8, l: Layout) {
        lock();
        let lg = log();
        let mut found: Option<usize> = None;
        for i in (0..lg.n).rev() {
            if lg.e[i].addr == p as usize {
                found = Some(i);
                break;
            }
        }
        match found {
            Some(i) => {
                let was_live = lg.e[i].live;
                lg.e[i].live = false;
                unlock();
                if !was_live {
                    DOUBLE_FREE.fetch_add(1, SeqCst);
                    return;
                }
                if !WINDOW.load(SeqCst) {
                    // a survivor of an earlier window: release it with its real layout
                    let e = lg.e[i];
                    lock();
                    lg.e[i] = lg.e[lg.n - 1];
                    lg.n -= 1;
                    unlock();
                    System.dealloc((e.addr - e.shift) as *mut u8, Layout::from_size_align_unchecked(e.size + e.shift, if e.align < 2 { 2 } else { e.align }));
                    return;
                }
                // poison: a read through a stale handle after the free sees 0xDD, not the old bytes
                core::ptr::write_bytes(p, 0xDD, l.size());
                if p as usize == TRACK_BASE.load(SeqCst) {
                    FREES.fetch_add(1, SeqCst);
                    // the real moment of the free, inside the crate's call: a write to every region
                    for g in GHOST.iter() {
                        let gp = g.load(SeqCst) as *const loom::cell::UnsafeCell<()>;
                        if !gp.is_null() {
                            let r = catch_unwind(AssertUnwindSafe(|| (*gp).with_mut(|_| ())));
                            if r.is_err() {
                                GHOST_PANIC.store(true, SeqCst);
                            }
                        }
                    }
                }
                // quarantined until the end of the execution (released by `end_window`)
            }
            None => {
                unlock();
                System.dealloc(p, l);
            }
        }
    }
}
#[global_allocator]
static ALLOC: A = A;

fn begin_window(odd: bool) {
    lock();
    let lg = log();
    lg.overflow = false;
    unlock();
    TRACK_BASE.store(0, SeqCst);
    GHOST[0].store(0, SeqCst);
    GHOST[1].store(0, SeqCst);
    FREES.store(0, SeqCst);
    DOUBLE_FREE.store(0, SeqCst);
    GHOST_PANIC.store(false, SeqCst);
    ODD.store(odd, SeqCst);
    WINDOW.store(true, SeqCst);
}

/// Close the window: returns (leaked control blocks referring to the tracked buffer,
/// tracked buffer still live?) and releases everything that was logged.
fn end_window() -> (usize, bool) {
    WINDOW.store(false, SeqCst);
    let base = TRACK_BASE.load(SeqCst);
    lock();
    let lg = log();
    let mut leaked_ctrl = 0;
    let mut buf_live = false;
    for i in 0..lg.n {
        let e = lg.e[i];
        if e.live {
            if e.addr == base && base != 0 {
                buf_live = true;
            } else if base != 0 && e.align >= 8 && e.size <= SMALL {
                // a still-live small block that contains the tracked buffer's address is a leaked control block
                let words = e.size / 8;
                for w in 0..words {
                    let v = unsafe { *((e.addr + 8 * w) as *const usize) };
                    if v == base || v == base | 1 {
                        leaked_ctrl += 1;
                        break;
                    }
                }
            }
        }
    }
    // release: freed entries were quarantined (still allocated), live ones are leaks (left alone unless small)
    let mut keep = 0;
    for i in 0..lg.n {
        let e = lg.e[i];
        if !e.live {
            unsafe { System.dealloc((e.addr - e.shift) as *mut u8, Layout::from_size_align_unchecked(e.size + e.shift, if e.align < 2 { 2 } else { e.align })) };
        } else {
            // still allocated (leaked by a failed execution, or owned by loom itself): remember it so that a
            // later free finds its real layout
            lg.e[keep] = e;
            keep += 1;
        }
    }
    lg.n = keep;
    unlock();
    (leaked_ctrl, buf_live)
}

// ------------------------------------------------------------------ program table

const DATA: [u8; 8] = [0x11, 0x22, 0x33, 0x44, 0x55, 0x66, 0x77, 0x88];
static SDATA: [u8; 8] = [0x11, 0x22, 0x33, 0x44, 0x55, 0x66, 0x77, 0x88];

#[derive(Clone, Copy, Debug, PartialEq, Eq)]
enum Rep {
    PromEven,
    PromOdd,
    PromEvenOff,
    PromOddOff,
    Promoted,
    SharedVec,
    Owner,
    FrozenSplit,
    /// the same four shared representations, but only main holds a handle (reference count exactly 1): worker
    /// threads own nothing and reach the storage only through the shared `&Bytes`
    PromotedSolo,
    SharedVecSolo,
    OwnerSolo,
    FrozenSplitSolo,
    MutHalves,
    MutThirds,
    Static,
}
const BYTES_REPS: &[Rep] = &[Rep::PromEven, Rep::PromOdd, Rep::PromEvenOff, Rep::PromOddOff, Rep::Promoted, Rep::SharedVec, Rep::Owner, Rep::FrozenSplit, Rep::Static, Rep::PromotedSolo, Rep::SharedVecSolo, Rep::OwnerSolo, Rep::FrozenSplitSolo];

#[derive(Clone, Copy, Debug, PartialEq, Eq)]
enum TOp {
    CloneRef,
    /// is_unique() through the shared `&Bytes` (the answer is racy by nature and not judged; the accesses are)
    IsUniqueRef,
    CloneOwn,
    Read,
    Slice,
    Drop,
    TryIntoMut,
    IntoMut,
    IntoVec,
    // BytesMut halves
    MWrite,
    MReserve,
    MTryReclaim,
    /// reserve more than the spare capacity while keeping the contents (copies out of shared storage)
    MGrow,
    MFreeze,
    MUnsplit,
    /// Vec::from(BytesMut half): takes the whole buffer over when the half is the last handle, copies otherwise
    MIntoVec,
    /// split_to(1) on a half that is already in the shared form: one more reference, taken through `&mut self`
    MSplit,
}
#[derive(Clone, Copy, Debug, PartialEq, Eq)]
enum MainMode {
    /// main keeps its handle until after join (threads may clone through &Bytes)
    Keep,
    /// main drops its handle between spawn and join
    DropEarly,
    /// main clones and drops both between spawn and join
    CloneDrop,
    /// main converts its handle into a Vec between spawn and join
    IntoVec,
}

#[derive(Clone, Debug)]
struct Program {
    rep: Rep,
    main: MainMode,
    threads: Vec<Vec<TOp>>,
}

struct SendPtr<T>(*const T);
unsafe impl<T> Send for SendPtr<T> {}
unsafe impl<T> Sync for SendPtr<T> {}

struct Owner(Vec<u8>);
impl AsRef<[u8]> for Owner {
    fn as_ref(&self) -> &[u8] {
        &self.0
    }
}

/// A Bytes handle together with what it must read and (for zero-copy views) where.
struct Hd {
    b: Bytes,
    expect: Vec<u8>,
    addr: Option<usize>,
}
fn hd(b: Bytes, base: usize, off: usize, len: usize, tracked: bool) -> Hd {
    Hd { b, expect: DATA[off..off + len].to_vec(), addr: if tracked && len > 0 { Some(base + off) } else { None } }
}

#[derive(Clone, Copy)]
struct Ctx {
    base: usize,
    tracked: bool,
    ghosts: [usize; 2],
    region_len: usize, // bytes per ghost region
}
impl Ctx {
    fn ghost(&self, i: usize) -> Option<&'static loom::cell::UnsafeCell<()>> {
        if self.ghosts[i] == 0 {
            None
        } else {
            Some(unsafe { &*(self.ghosts[i] as *const loom::cell::UnsafeCell<()>) })
        }
    }
    fn regions(&self, addr: usize, len: usize) -> Vec<usize> {
        let mut v = vec![];
        if !self.tracked || len == 0 {
            return v;
        }
        for i in 0..2 {
            if self.ghosts[i] == 0 {
                continue;
            }
            let (s, e) = (self.base + i * self.region_len, self.base + (i + 1) * self.region_len);
            if addr < e && addr + len > s {
                v.push(i);
            }
        }
        v
    }
    fn ghost_read(&self, addr: usize, len: usize) {
        for i in self.regions(addr, len) {
            self.ghost(i).unwrap().with(|_| ());
        }
    }
    fn ghost_write(&self, addr: usize, len: usize) {
        for i in self.regions(addr, len) {
            self.ghost(i).unwrap().with_mut(|_| ());
        }
    }
    /// last use of a reference to the shared buffer: real + ghost read, contents and address checked
    fn use_bytes(&self, h: &Hd, what: &str) {
        let p = h.b.as_ptr() as usize;
        if let Some(a) = h.addr {
            if p != a {
                panic!("C05,C07,C01: {}: handle reads at {:#x}, want the original address {:#x} (buffer base {:#x})", what, p, a, self.base);
            }
        }
        self.ghost_read(p, h.b.len());
        if &h.b[..] != &h.expect[..] {
            if h.b.iter().any(|&x| x == 0xDD) {
                panic!("C05,C02,C03,C06,C01: {}: handle reads {:02x?} (0xdd = freed memory: the read did not happen before the deallocation), want {:02x?}", what, &h.b[..], h.expect);
            }
            panic!("C05,C01: {}: handle reads {:02x?}, want {:02x?}", what, &h.b[..], h.expect);
        }
    }
    fn in_buffer(&self, p: usize) -> bool {
        self.tracked && p >= self.base && p < self.base + self.region_len * if self.ghosts[1] != 0 { 2 } else { 1 }
    }
}

static EXCL: StdUsize = StdUsize::new(0);
static OUTCOME: StdUsize = StdUsize::new(0);

fn note_outcome(bit: usize) {
    OUTCOME.fetch_or(1 << bit, SeqCst);
}

fn run_thread(tid: usize, ops: &[TOp], mut own: Vec<Hd>, mut muts: Vec<(BytesMut, Vec<u8>)>, shared: Option<SendPtr<Bytes>>, shared_off: usize, ctx: Ctx) {
    // "obtained the storage without copying" is counted once per party
    let mut excl = false;
    let mut take_excl = |bit: usize| {
        if !excl {
            excl = true;
            EXCL.fetch_add(1, SeqCst);
        }
        note_outcome(bit);
    };
    for op in ops {
        match op {
            TOp::CloneRef => {
                if let Some(sp) = &shared {
                    let a: &Bytes = unsafe { &*sp.0 };
                    let c = a.clone();
                    let h = hd(c, ctx.base, shared_off, DATA.len() - shared_off, ctx.tracked);
                    ctx.use_bytes(&h, "clone through &Bytes");
                    own.push(h);
                }
            }
            TOp::IsUniqueRef => {
                if let Some(sp) = &shared {
                    let a: &Bytes = unsafe { &*sp.0 };
                    let u = a.is_unique();
                    note_outcome(tid * 4 + if u { 1 } else { 2 });
                }
            }
            TOp::CloneOwn => {
                if let Some(h) = own.last() {
                    ctx.use_bytes(h, "before clone");
                    let c = Hd { b: h.b.clone(), expect: h.expect.clone(), addr: h.addr };
                    ctx.use_bytes(&c, "clone");
                    own.push(c);
                }
            }
            TOp::Read => {
                if let Some(h) = own.last() {
                    ctx.use_bytes(h, "read");
                }
            }
            TOp::Slice => {
                if let Some(h) = own.last() {
                    if h.expect.len() >= 3 {
                        ctx.use_bytes(h, "before slice");
                        let s = Hd { b: h.b.slice(1..3), expect: h.expect[1..3].to_vec(), addr: h.addr.map(|a| a + 1) };
                        ctx.use_bytes(&s, "slice");
                        own.push(s);
                    }
                }
            }
            TOp::Drop => {
                if let Some(h) = own.pop() {
                    ctx.use_bytes(&h, "before drop");
                    drop(h);
                } else if let Some((m, _)) = muts.pop() {
                    ctx.ghost_read(m.as_ptr() as usize, m.capacity());
                    drop(m);
                }
            }
            TOp::TryIntoMut | TOp::IntoMut => {
                if let Some(h) = own.pop() {
                    ctx.use_bytes(&h, "before conversion to BytesMut");
                    let old_ptr = h.b.as_ptr() as usize;
                    let (expect, addr) = (h.expect, h.addr);
                    conv_begin(h.b.len());
                    let r = if *op == TOp::TryIntoMut { h.b.try_into_mut() } else { Ok(BytesMut::from(h.b)) };
                    conv_end();
                    match r {
                        Ok(mut m) => {
                            if &m[..] != &expect[..] {
                                panic!("C05,C01{}: BytesMut from Bytes holds {:02x?}, want {:02x?}", if m.iter().any(|&x| x == 0xDD) { ",C02,C03,C06" } else { "" }, &m[..], expect);
                            }
                            if !m.is_empty() && m.as_ptr() as usize == old_ptr && ctx.in_buffer(old_ptr) {
                                // zero-copy: this thread now owns the storage exclusively
                                take_excl(tid * 4);
                                ctx.ghost_write(m.as_ptr() as usize, m.capacity());
                                for x in m.iter_mut() {
                                    *x = 0xFF;
                                }
                            } else {
                                note_outcome(tid * 4 + 1);
                            }
                            ctx.ghost_read(m.as_ptr() as usize, m.capacity());
                            drop(m);
                        }
                        Err(b) => {
                            note_outcome(tid * 4 + 2);
                            own.push(Hd { b, expect, addr });
                        }
                    }
                }
            }
            TOp::IntoVec => {
                if let Some(h) = own.pop() {
                    ctx.use_bytes(&h, "before conversion to Vec");
                    let expect = h.expect;
                    conv_begin(h.b.len());
                    let mut v: Vec<u8> = h.b.into();
                    conv_end();
                    if &v[..] != &expect[..] {
                        panic!("C05,C01{}: Vec from Bytes holds {:02x?}, want {:02x?}", if v.iter().any(|&x| x == 0xDD) { ",C02,C03,C06" } else { "" }, &v[..], expect);
                    }
                    if !v.is_empty() && ctx.tracked && v.as_ptr() as usize == ctx.base {
                        take_excl(tid * 4 + 3);
                        ctx.ghost_write(v.as_ptr() as usize, v.capacity());
                        for x in v.iter_mut() {
                            *x = 0xFF;
                        }
                    }
                    drop(v);
                }
            }
            TOp::MWrite => {
                if let Some((m, expect)) = muts.last_mut() {
                    ctx.ghost_write(m.as_ptr() as usize, m.capacity());
                    if &m[..] != &expect[..] {
                        panic!("C05,C01,C04: BytesMut half reads {:02x?}, want {:02x?}", &m[..], expect);
                    }
                    for x in m.iter_mut() {
                        *x = x.wrapping_add(1);
                    }
                    for x in expect.iter_mut() {
                        *x = x.wrapping_add(1);
                    }
                }
            }
            TOp::MReserve | TOp::MTryReclaim => {
                if let Some((m, expect)) = muts.last_mut() {
                    ctx.ghost_write(m.as_ptr() as usize, m.capacity());
                    m.clear();
                    expect.clear();
                    let total = 2 * ctx.region_len;
                    let ok = if *op == TOp::MReserve {
                        m.reserve(total);
                        true
                    } else {
                        m.try_reclaim(total)
                    };
                    if ok {
                        let p = m.as_ptr() as usize;
                        if ctx.in_buffer(p) {
                            // still inside the original buffer with room for all of it: it owns the whole buffer
                            take_excl(tid * 4);
                            ctx.ghost_write(ctx.base, total);
                        } else {
                            note_outcome(tid * 4 + 1);
                        }
                        // use the promised capacity
                        for _ in 0..total {
                            crate::BufMut::put_u8(m, 0xEE);
                            expect.push(0xEE);
                        }
                    } else {
                        note_outcome(tid * 4 + 2);
                    }
                }
            }
            TOp::MGrow => {
                if let Some((m, expect)) = muts.last_mut() {
                    ctx.ghost_read(m.as_ptr() as usize, m.len());
                    let total = 2 * ctx.region_len;
                    let before = m.as_ptr() as usize;
                    m.reserve(total + 4);
                    let p = m.as_ptr() as usize;
                    if &m[..] != &expect[..] {
                        panic!("C05,C01,C04{}: BytesMut after a growing reserve holds {:02x?}, want {:02x?}", if m.iter().any(|&x| x == 0xDD) { ",C02,C03,C06" } else { "" }, &m[..], expect);
                    }
                    if p == before && ctx.in_buffer(p) {
                        take_excl(tid * 4);
                        ctx.ghost_write(ctx.base, total);
                    } else {
                        note_outcome(tid * 4 + 1);
                    }
                    crate::BufMut::put_u8(m, 0xE1);
                    expect.push(0xE1);
                }
            }
            TOp::MIntoVec => {
                if let Some((m, expect)) = muts.pop() {
                    ctx.ghost_read(m.as_ptr() as usize, m.len());
                    let mut v: Vec<u8> = m.into();
                    if &v[..] != &expect[..] {
                        panic!("C05,C01{}: Vec from a BytesMut half holds {:02x?}, want {:02x?}", if v.iter().any(|&x| x == 0xDD) { ",C02,C03,C06" } else { "" }, &v[..], expect);
                    }
                    if v.capacity() > 0 && v.as_ptr() as usize == ctx.base && ctx.tracked {
                        // it took the buffer itself: exclusive owner of the whole allocation
                        take_excl(tid * 4 + 3);
                        ctx.ghost_write(ctx.base, 2 * ctx.region_len);
                        for x in v.iter_mut() {
                            *x = 0xFF;
                        }
                    } else {
                        note_outcome(tid * 4 + 1);
                    }
                    drop(v);
                }
            }
            TOp::MSplit => {
                if let Some((mut m, mut expect)) = muts.pop() {
                    if m.len() >= 2 {
                        ctx.ghost_read(m.as_ptr() as usize, m.len());
                        let p = m.as_ptr() as usize;
                        let head = m.split_to(1);
                        let rest_expect = expect.split_off(1);
                        if head.as_ptr() as usize != p || m.as_ptr() as usize != p + 1 {
                            panic!("C05,C07: split_to(1) of a BytesMut half moved the bytes");
                        }
                        if &head[..] != &expect[..] || &m[..] != &rest_expect[..] {
                            panic!("C05,C01,C04: split_to(1) of a BytesMut half reads {:02x?} / {:02x?}, want {:02x?} / {:02x?}", &head[..], &m[..], expect, rest_expect);
                        }
                        muts.push((head, expect));
                        muts.push((m, rest_expect));
                    } else {
                        muts.push((m, expect));
                    }
                }
            }
            TOp::MFreeze => {
                if let Some((m, expect)) = muts.pop() {
                    ctx.ghost_read(m.as_ptr() as usize, m.len());
                    let p = m.as_ptr() as usize;
                    let nonempty = !m.is_empty();
                    let b = m.freeze();
                    let h = Hd { b, expect, addr: if nonempty { Some(p) } else { None } };
                    ctx.use_bytes(&h, "freeze");
                    own.push(h);
                }
            }
            TOp::MUnsplit => {
                if muts.len() >= 2 {
                    let (b, bexp) = muts.pop().unwrap();
                    let (mut a, mut aexp) = muts.pop().unwrap();
                    ctx.ghost_write(a.as_ptr() as usize, a.capacity());
                    ctx.ghost_write(b.as_ptr() as usize, b.capacity());
                    let ap = a.as_ptr() as usize;
                    let adjacent = !a.is_empty() && ap + a.len() == b.as_ptr() as usize && ctx.in_buffer(ap) && ctx.in_buffer(b.as_ptr() as usize);
                    a.unsplit(b);
                    aexp.extend_from_slice(&bexp);
                    if adjacent && a.as_ptr() as usize != ap {
                        panic!("C05,C07: unsplit of adjacent halves moved the bytes");
                    }
                    if &a[..] != &aexp[..] {
                        panic!("C05,C01: unsplit result reads {:02x?}, want {:02x?}", &a[..], aexp);
                    }
                    muts.push((a, aexp));
                }
            }
        }
    }
    // end of thread: drop what is left (each drop is a last use)
    while let Some(h) = own.pop() {
        ctx.use_bytes(&h, "before final drop");
        drop(h);
    }
    while let Some((m, _)) = muts.pop() {
        ctx.ghost_read(m.as_ptr() as usize, m.capacity());
        drop(m);
    }
}

fn run_program(p: &Program) {
    let odd = matches!(p.rep, Rep::PromOdd | Rep::PromOddOff);
    begin_window(odd);
    EXCL.store(0, SeqCst);
    // ghost cells (created inside the execution)
    let g0 = Box::into_raw(Box::new(loom::cell::UnsafeCell::new(())));
    let g1 = Box::into_raw(Box::new(loom::cell::UnsafeCell::new(())));
    let nthreads = p.threads.len();
    let mut main_handle: Option<Bytes> = None;
    let mut own: Vec<Vec<Hd>> = (0..nthreads).map(|_| vec![]).collect();
    let mut muts: Vec<Vec<(BytesMut, Vec<u8>)>> = (0..nthreads).map(|_| vec![]).collect();
    let mut shared_off = 0usize;
    let mut ctx = Ctx { base: 0, tracked: true, ghosts: [g0 as usize, 0], region_len: 8 };
    match p.rep {
        Rep::PromEven | Rep::PromOdd | Rep::PromEvenOff | Rep::PromOddOff => {
            let v = DATA.to_vec();
            let mut a = Bytes::from(v);
            ctx.base = a.as_ptr() as usize;
            if matches!(p.rep, Rep::PromEvenOff | Rep::PromOddOff) {
                a.advance(2);
                shared_off = 2;
            }
            main_handle = Some(a);
        }
        Rep::Promoted | Rep::SharedVec | Rep::Owner | Rep::FrozenSplit | Rep::Static | Rep::PromotedSolo | Rep::SharedVecSolo | Rep::OwnerSolo | Rep::FrozenSplitSolo => {
            let solo = matches!(p.rep, Rep::PromotedSolo | Rep::SharedVecSolo | Rep::OwnerSolo | Rep::FrozenSplitSolo);
            let a = match p.rep {
                Rep::Promoted | Rep::PromotedSolo => {
                    let a = Bytes::from(DATA.to_vec());
                    let c = a.clone();
                    drop(c);
                    a
                }
                Rep::SharedVec | Rep::SharedVecSolo => {
                    let mut v = Vec::with_capacity(12);
                    v.extend_from_slice(&DATA);
                    Bytes::from(v)
                }
                Rep::Owner | Rep::OwnerSolo => Bytes::from_owner(Owner(DATA.to_vec())),
                Rep::FrozenSplit | Rep::FrozenSplitSolo => {
                    let mut m = BytesMut::with_capacity(12);
                    m.extend_from_slice(&DATA);
                    m.extend_from_slice(&[0, 0]);
                    let head = m.split_to(8);
                    drop(m);
                    head.freeze()
                }
                _ => Bytes::from_static(&SDATA),
            };
            ctx.base = a.as_ptr() as usize;
            ctx.tracked = p.rep != Rep::Static;
            if !solo {
                for t in 0..nthreads {
                    own[t].push(hd(a.clone(), ctx.base, 0, 8, ctx.tracked));
                }
            }
            main_handle = Some(a);
        }
        Rep::MutHalves | Rep::MutThirds => {
            // 16 bytes = DATA twice is not position-unique; use two regions of 4 bytes of DATA
            let mut m = BytesMut::with_capacity(8);
            m.extend_from_slice(&DATA);
            ctx.base = m.as_ptr() as usize;
            ctx.region_len = 4;
            ctx.ghosts = [g0 as usize, g1 as usize];
            if p.rep == Rep::MutHalves {
                let h1 = m.split_to(4);
                muts[0].push((h1, DATA[0..4].to_vec()));
                muts[1 % nthreads].push((m, DATA[4..8].to_vec()));
            } else {
                // thread 0 gets two adjacent pieces of region 0, thread 1 region 1
                let mut h1 = m.split_to(4);
                let h0 = h1.split_to(2);
                muts[0].push((h0, DATA[0..2].to_vec()));
                muts[0].push((h1, DATA[2..4].to_vec()));
                muts[1 % nthreads].push((m, DATA[4..8].to_vec()));
            }
        }
    }
    if ctx.tracked {
        TRACK_BASE.store(ctx.base, SeqCst);
        GHOST[0].store(ctx.ghosts[0], SeqCst);
        GHOST[1].store(ctx.ghosts[1], SeqCst);
    }
    let uses_ref = p.threads.iter().any(|t| t.contains(&TOp::CloneRef) || t.contains(&TOp::IsUniqueRef));
    let sp_addr: usize = match (&main_handle, uses_ref && p.main == MainMode::Keep) {
        (Some(a), true) => a as *const Bytes as usize,
        _ => 0,
    };
    let mut joins = vec![];
    for t in (0..nthreads).rev() {
        let ops = p.threads[t].clone();
        let o = own.pop().unwrap();
        let m = muts.pop().unwrap();
        let c = ctx;
        let so = shared_off;
        let sp = sp_addr;
        joins.push(loom::thread::spawn(move || {
            let shared = if sp != 0 { Some(SendPtr(sp as *const Bytes)) } else { None };
            run_thread(t, &ops, o, m, shared, so, c);
        }));
    }
    // main acts between spawn and join
    let main_len = 8 - shared_off;
    match p.main {
        MainMode::Keep => {}
        MainMode::DropEarly => {
            if let Some(a) = main_handle.take() {
                ctx.use_bytes(&hd(a, ctx.base, shared_off, main_len, ctx.tracked), "main before drop");
            }
        }
        MainMode::CloneDrop => {
            if let Some(a) = main_handle.take() {
                let h = hd(a, ctx.base, shared_off, main_len, ctx.tracked);
                ctx.use_bytes(&h, "main before clone");
                let c = hd(h.b.clone(), ctx.base, shared_off, main_len, ctx.tracked);
                ctx.use_bytes(&c, "main clone");
                drop(h);
                ctx.use_bytes(&c, "main before drop of clone");
                drop(c);
            }
        }
        MainMode::IntoVec => {
            if let Some(a) = main_handle.take() {
                let h = hd(a, ctx.base, shared_off, main_len, ctx.tracked);
                ctx.use_bytes(&h, "main before into Vec");
                conv_begin(h.b.len());
                let mut v: Vec<u8> = h.b.into();
                conv_end();
                if &v[..] != &DATA[shared_off..] {
                    panic!("C05,C01: main: Vec from Bytes holds {:02x?}", &v[..]);
                }
                if ctx.tracked && v.as_ptr() as usize == ctx.base {
                    EXCL.fetch_add(1, SeqCst);
                    note_outcome(12);
                    ctx.ghost_write(v.as_ptr() as usize, v.capacity());
                    for x in v.iter_mut() {
                        *x = 0xFF;
                    }
                }
                drop(v);
            }
        }
    }
    let mut thread_panic: Option<String> = None;
    for j in joins {
        if let Err(e) = j.join() {
            let msg = e.downcast_ref::<String>().cloned().or_else(|| e.downcast_ref::<&str>().map(|s| s.to_string())).unwrap_or_else(|| "thread panicked".into());
            thread_panic.get_or_insert(msg);
        }
    }
    if let Some(a) = main_handle.take() {
        let h = hd(a, ctx.base, shared_off, main_len, ctx.tracked);
        if thread_panic.is_none() {
            ctx.use_bytes(&h, "main after join");
        }
        drop(h);
    }
    let frees = FREES.load(SeqCst);
    let dfree = DOUBLE_FREE.load(SeqCst);
    let ghost_panic = GHOST_PANIC.load(SeqCst);
    let excl = EXCL.load(SeqCst);
    let (leaked_ctrl, buf_live) = end_window();
    unsafe {
        drop(Box::from_raw(g0));
        drop(Box::from_raw(g1));
    }
    if let Some(m) = thread_panic {
        panic!("{}", m);
    }
    if ghost_panic {
        panic!("C06,C05,C03: the deallocation of the buffer races with an earlier use on another thread: it is released before the last view is gone in the happens-before order (ghost cell causality violation at the free)");
    }
    if dfree > 0 {
        panic!("C05,C02,C03: a block was freed twice ({} double frees)", dfree);
    }
    if ctx.tracked {
        if frees != 1 || buf_live {
            panic!("C05,C03: the storage was freed {} times (still live: {}), want exactly once after the last handle", frees, buf_live);
        }
        if leaked_ctrl > 0 {
            panic!("C05,C03: {} control block(s) referring to the buffer leaked", leaked_ctrl);
        }
    }
    if excl > 1 {
        panic!("C05,C04,C08: {} parties obtained the storage without copying", excl);
    }
}

// ------------------------------------------------------------------ program families

fn seqs(alpha: &[TOp], max_len: usize, first: &[TOp]) -> Vec<Vec<TOp>> {
    // all sequences of length 0..=max_len; if `first` is non-empty, non-empty sequences start with one of them
    let mut out: Vec<Vec<TOp>> = vec![vec![]];
    let mut level: Vec<Vec<TOp>> = vec![vec![]];
    for l in 0..max_len {
        let mut next = vec![];
        for s in &level {
            for &o in alpha {
                if l == 0 && !first.is_empty() && !first.contains(&o) {
                    continue;
                }
                let mut t = s.clone();
                t.push(o);
                next.push(t);
            }
        }
        out.extend(next.iter().cloned());
        level = next;
    }
    out
}

fn family(set: &str) -> Vec<Program> {
    let core = [TOp::CloneRef, TOp::IsUniqueRef, TOp::Drop, TOp::TryIntoMut, TOp::IntoMut, TOp::IntoVec];
    let full = [TOp::CloneRef, TOp::IsUniqueRef, TOp::CloneOwn, TOp::Read, TOp::Slice, TOp::Drop, TOp::TryIntoMut, TOp::IntoMut, TOp::IntoVec];
    let mcore = [TOp::MWrite, TOp::MReserve, TOp::MTryReclaim, TOp::MGrow, TOp::MFreeze, TOp::MIntoVec, TOp::MSplit, TOp::Drop];
    let mut out = vec![];
    let (alpha, k, mains): (&[TOp], usize, &[MainMode]) = match set {
        "quick" => (&core, 2, &[MainMode::Keep, MainMode::DropEarly]),
        "full" => (&full, 2, &[MainMode::Keep, MainMode::DropEarly, MainMode::CloneDrop, MainMode::IntoVec]),
        "k3" => (&core, 3, &[MainMode::Keep, MainMode::DropEarly]),
        "three" => (&core, 2, &[MainMode::Keep, MainMode::DropEarly, MainMode::IntoVec]),
        _ => (&core, 1, &[MainMode::Keep]),
    };
    let nthreads = if set == "three" { 3 } else { 2 };
    for &rep in BYTES_REPS {
        // threads that own nothing: the unpromoted representations and the "solo" ones
        let unpromoted = matches!(rep, Rep::PromEven | Rep::PromOdd | Rep::PromEvenOff | Rep::PromOddOff | Rep::PromotedSolo | Rep::SharedVecSolo | Rep::OwnerSolo | Rep::FrozenSplitSolo);
        for &main in mains {
            // threads of an unpromoted buffer own nothing: they must clone through the shared reference first
            if unpromoted && main != MainMode::Keep {
                continue;
            }
            let ss = seqs(alpha, k, if unpromoted { &[TOp::CloneRef, TOp::IsUniqueRef] } else { &[] });
            if nthreads == 2 {
                for i in 0..ss.len() {
                    for j in i..ss.len() {
                        if ss[i].is_empty() && ss[j].is_empty() {
                            continue;
                        }
                        if main != MainMode::Keep && (ss[i].contains(&TOp::CloneRef) || ss[j].contains(&TOp::CloneRef) || ss[i].contains(&TOp::IsUniqueRef) || ss[j].contains(&TOp::IsUniqueRef)) {
                            continue;
                        }
                        // quick: only pairs in which both threads do something racy
                        if set == "quick" && (ss[i].is_empty() || (ss[i].len() + ss[j].len() > 3)) {
                            continue;
                        }
                        out.push(Program { rep, main, threads: vec![ss[i].clone(), ss[j].clone()] });
                    }
                }
            } else {
                // three worker threads: one operation each from the racy core, plus two-op programs on one thread
                let one: Vec<Vec<TOp>> = ss.iter().filter(|s| s.len() == 1).cloned().collect();
                for a in 0..one.len() {
                    for b in a..one.len() {
                        for c in b..one.len() {
                            let ts = vec![one[a].clone(), one[b].clone(), one[c].clone()];
                            if main != MainMode::Keep && ts.iter().any(|t| t.contains(&TOp::CloneRef) || t.contains(&TOp::IsUniqueRef)) {
                                continue;
                            }
                            out.push(Program { rep, main, threads: ts });
                        }
                    }
                }
            }
        }
    }
    // BytesMut halves: two writers/reclaimers on disjoint halves of one buffer
    if nthreads == 2 {
        let ms = seqs(&mcore, if set == "quick" { 2 } else { k.max(2) }, &[]);
        for i in 0..ms.len() {
            for j in i..ms.len() {
                if ms[i].is_empty() || ms[j].is_empty() {
                    continue;
                }
                if set == "quick" && ms[i].len() + ms[j].len() > 3 {
                    continue;
                }
                out.push(Program { rep: Rep::MutHalves, main: MainMode::Keep, threads: vec![ms[i].clone(), ms[j].clone()] });
                if i != j {
                    out.push(Program { rep: Rep::MutHalves, main: MainMode::Keep, threads: vec![ms[j].clone(), ms[i].clone()] });
                }
            }
        }
        // unsplit on one thread while the other drops / freezes / reclaims
        for other in ms.iter().filter(|s| !s.is_empty() && s.len() <= 2) {
            for mine in [vec![TOp::MUnsplit], vec![TOp::MUnsplit, TOp::MWrite], vec![TOp::MUnsplit, TOp::MReserve], vec![TOp::MWrite, TOp::MUnsplit]] {
                out.push(Program { rep: Rep::MutThirds, main: MainMode::Keep, threads: vec![mine, other.clone()] });
            }
        }
        // frozen halves converted back while the sibling is used
        for conv in [TOp::TryIntoMut, TOp::IntoMut, TOp::IntoVec] {
            for other in ms.iter().filter(|s| !s.is_empty() && s.len() <= 2) {
                out.push(Program { rep: Rep::MutHalves, main: MainMode::Keep, threads: vec![vec![TOp::MFreeze, conv], other.clone()] });
            }
        }
    }
    out
}

fn env(name: &str, default: &str) -> String {
    std::env::var(name).unwrap_or_else(|_| default.to_string())
}

/// Driver: `VERIF_LOOM_SET=quick|full|k3|three VERIF_LOOM_SHARD=i/n VERIF_LOOM_PREEMPTIONS=none|<k>
/// VERIF_LOOM_MAXPERM=<cap> VERIF_LOOM_ONLY=<index>` ; prints one `PROGRAM`/`DONE` line pair per
/// program and a final `RESULT {json}` line.
#[test]
fn verif_loom_driver() {
    let set = env("VERIF_LOOM_SET", "quick");
    let shard: Vec<usize> = env("VERIF_LOOM_SHARD", "0/1").split('/').map(|x| x.parse().unwrap()).collect();
    let preempt = env("VERIF_LOOM_PREEMPTIONS", "none");
    let maxperm: usize = env("VERIF_LOOM_MAXPERM", "2000000").parse().unwrap();
    let only: Option<usize> = std::env::var("VERIF_LOOM_ONLY").ok().map(|x| x.parse().unwrap());
    let start: usize = env("VERIF_LOOM_START", "0").parse().unwrap();
    let progs = family(&set);
    if std::env::var("VERIF_LOOM_LIST").is_ok() {
        for (i, p) in progs.iter().enumerate() {
            println!("LIST {} {:?}", i, p);
        }
        println!("RESULT {{\"programs\":{}}}", progs.len());
        return;
    }
    let mut nprog = 0usize;
    let mut total_exec = 0usize;
    let mut capped = 0usize;
    let mut violations: Vec<(usize, String, String)> = vec![];
    let mut outcomes_multi = 0usize;
    let mut samples: Vec<String> = vec![];
    let t0 = std::time::Instant::now();
    for (idx, p) in progs.iter().enumerate() {
        if idx % shard[1] != shard[0] || idx < start {
            continue;
        }
        if let Some(o) = only {
            if o != idx {
                continue;
            }
        }
        println!("PROGRAM {} {:?}", idx, p);
        nprog += 1;
        static EXECS: StdUsize = StdUsize::new(0);
        static OUTSET: std::sync::Mutex<Vec<usize>> = std::sync::Mutex::new(Vec::new());
        EXECS.store(0, SeqCst);
        OUTSET.lock().unwrap().clear();
        let mut b = loom::model::Builder::new();
        b.preemption_bound = if preempt == "none" { None } else { Some(preempt.parse().unwrap()) };
        b.max_permutations = Some(maxperm);
        b.checkpoint_interval = 1000;
        b.max_branches = 20_000;
        let pp = p.clone();
        let r = catch_unwind(AssertUnwindSafe(|| {
            b.check(move || {
                EXECS.fetch_add(1, SeqCst);
                OUTCOME.store(0, SeqCst);
                run_program(&pp);
                let o = OUTCOME.load(SeqCst);
                let mut s = OUTSET.lock().unwrap();
                if !s.contains(&o) {
                    s.push(o);
                }
            })
        }));
        // a failed execution leaves the window open: close it
        if WINDOW.load(SeqCst) {
            let _ = end_window();
        }
        let n = EXECS.load(SeqCst);
        total_exec += n;
        let nout = OUTSET.lock().unwrap().len();
        if nout > 1 {
            outcomes_multi += 1;
        }
        if n >= maxperm {
            capped += 1;
        }
        if let Err(e) = r {
            let msg = e.downcast_ref::<String>().cloned().or_else(|| e.downcast_ref::<&str>().map(|s| s.to_string())).unwrap_or_else(|| "panic".into());
            // the message starts with the list of properties it violates; ghost-cell / atomic causality
            // violations are ordering defects (C06, and C05's "every outcome the memory model allows");
            // anything unrecognised (e.g. loom tripping over a poisoned, i.e. freed, control block) is a
            // lifetime defect
            let head: String = msg.chars().take_while(|c| *c != ':').collect();
            let prop: String = if head.starts_with('C') && head.len() <= 24 && head.split(',').all(|x| x.len() == 3 && x.starts_with('C') && x[1..].chars().all(|c| c.is_ascii_digit())) {
                head
            } else if msg.contains("Causality violation") {
                "C06,C05".to_string()
            } else {
                "C05,C02,C03".to_string()
            };
            let prop = prop.as_str();
            println!("VIOLATION-DETAIL program={} property={} {}", idx, prop, msg.replace('\n', " "));
            violations.push((idx, prop.to_string(), msg.replace('\n', " ").replace('"', "'")));
        }
        if samples.len() < 6 && (nprog % 97 == 1) {
            samples.push(format!("#{} {:?}: {} executions, {} distinct outcomes", idx, p, n, nout).replace('"', "'"));
        }
        println!("DONE {} executions={} outcomes={}", idx, n, nout);
    }
    let vj: Vec<String> = violations
        .iter()
        .map(|(i, p, m)| format!("{{\"program\":{},\"property\":\"{}\",\"msg\":\"{}\",\"desc\":\"{}\"}}", i, p, m.replace('\\', "/"), format!("{:?}", progs[*i]).replace('"', "'")))
        .collect();
    let sj: Vec<String> = samples.iter().map(|s| format!("\"{}\"", s.replace('\\', "/"))).collect();
    println!(
        "RESULT {{\"set\":\"{}\",\"programs\":{},\"executions\":{},\"capped_programs\":{},\"programs_with_several_outcomes\":{},\"family_size\":{},\"preemption_bound\":\"{}\",\"wall_s\":{:.2},\"violations\":[{}],\"samples\":[{}]}}",
        set,
        nprog,
        total_exec,
        capped,
        outcomes_multi,
        progs.len(),
        preempt,
        t0.elapsed().as_secs_f64(),
        vj.join(","),
        sj.join(",")
    );
}
